// C07 search/tie harness: several host threads, each with its own Stepper/CoreState,
// over ONE shared CoreParams with StepCollector (+ recorder), SimpleCalo,
// ActionDiagnostic and StepDiagnostic attached.
//
// usage: streams <conc|serial> <max_streams> <slots> <yield_seed>
//   stdin : "A <stream> <event> <nprim>" lines; a stream transports its events in input order
//   conc  : one std::thread per stream that has events; the Stepper (and CoreState, aux
//           states, lazily created per-stream diagnostic states) is constructed INSIDE the
//           thread, as celer-sim's Runner::get_transporter does, i.e. while other streams
//           are already stepping
//   serial: the same per-stream work lists, one stream after the other on the main thread
//   stdout: V <event> <stream> <ntracks> <nsteps> <stepper calls> <fnv64 of the event's step records>
//           DA <action label> <particle> <count>      (ActionDiagnostic, summed over streams)
//           DS <particle> <bin> <count>               (StepDiagnostic)
//           K  <detector> <hex double>                (SimpleCalo total, accumulated over streams in stream order)
//           MR/ME/KR/EN  content of the process-wide MemRegistry, KernelRegistry, Environment after the run
//           X  <message>                              (exception in a stream)
// std::thread (not OpenMP) so that ThreadSanitizer sees every synchronisation.
#include <algorithm>
#include <atomic>
#include <cmath>
#include <cstdint>
#include <cstring>
#include <iostream>
#include <memory>
#include <mutex>
#include <sstream>
#include <string>
#include <thread>
#include <tuple>
#include <vector>

#include "corecel/Types.hh"
#include "corecel/cont/Span.hh"
#include "corecel/io/Logger.hh"
#include "corecel/math/ArrayUtils.hh"
#include "corecel/sys/ActionRegistry.hh"
#include "corecel/sys/Environment.hh"
#include "corecel/sys/KernelRegistry.hh"
#include "corecel/sys/MemRegistry.hh"
#include "celeritas/Types.hh"
#include "celeritas/geo/GeoParams.hh"
#include "celeritas/global/CoreParams.hh"
#include "celeritas/global/Stepper.hh"
#include "celeritas/phys/PDGNumber.hh"
#include "celeritas/phys/ParticleParams.hh"
#include "celeritas/phys/Primary.hh"
#include "celeritas/user/ActionDiagnostic.hh"
#include "celeritas/user/SimpleCalo.hh"
#include "celeritas/user/StepCollector.hh"
#include "celeritas/user/StepData.hh"
#include "celeritas/user/StepDiagnostic.hh"
#include "celeritas/user/StepInterface.hh"

#include "celeritas/SimpleTestBase.hh"

using namespace celeritas;

namespace
{
//---------------------------------------------------------------------------//
std::string hx(double x)
{
    std::uint64_t u;
    std::memcpy(&u, &x, sizeof(u));
    char buf[32];
    std::snprintf(buf, sizeof(buf), "%016llx", static_cast<unsigned long long>(u));
    return buf;
}

struct SplitMix
{
    std::uint64_t s;
    std::uint64_t next()
    {
        std::uint64_t z = (s += 0x9e3779b97f4a7c15ull);
        z = (z ^ (z >> 30)) * 0xbf58476d1ce4e5b9ull;
        z = (z ^ (z >> 27)) * 0x94d049bb133111ebull;
        return z ^ (z >> 31);
    }
    double uni() { return (next() >> 11) * (1.0 / 9007199254740992.0); }
};

struct Rec
{
    unsigned event, track, step;
    std::string text;
};

//! Step recorder shared by all streams; each stream only touches its own buffer
class Recorder final : public StepInterface
{
  public:
    explicit Recorder(size_type max_streams) : bufs(max_streams) {}
    // One StepCollector cannot mix interfaces with and without detectors and two
    // collectors cannot coexist (duplicate aux label), so the recorder forwards to
    // the real SimpleCalo (detectors: every volume) and records the same steps.
    Filters filters() const final
    {
        Filters f = calo->filters();
        f.nonzero_energy_deposition = false;
        return f;
    }
    StepSelection selection() const final { return StepSelection::all(); }
    void process_steps(DeviceStepState) final {}
    void process_steps(HostStepState state) final
    {
        calo->process_steps(state);
        auto const& d = state.steps.data;
        auto& out = bufs[state.stream_id.unchecked_get()];
        for (auto tid : range(TrackSlotId{d.size()}))
        {
            TrackId track = d.track_id[tid];
            if (!track)
                continue;
            Rec r;
            r.event = d.event_id[tid].unchecked_get();
            r.track = track.unchecked_get();
            r.step = d.track_step_count[tid];
            std::ostringstream os;
            os << "parent=" << (d.parent_id[tid] ? static_cast<long>(d.parent_id[tid].unchecked_get()) : -1L)
               << " action=" << (d.action_id[tid] ? reg->id_to_label(d.action_id[tid]) : std::string("none"))
               << " particle=" << d.particle[tid].unchecked_get() << " len=" << hx(d.step_length[tid])
               << " edep=" << hx(d.energy_deposition[tid].value());
            for (auto sp : range(StepPoint::size_))
            {
                auto const& p = d.points[sp];
                os << ' ' << hx(p.time[tid]) << ' ' << hx(p.energy[tid].value()) << ' '
                   << (p.volume_id[tid] ? static_cast<long>(p.volume_id[tid].unchecked_get()) : -1L) << ' '
                   << hx(p.pos[tid][0]) << ',' << hx(p.pos[tid][1]) << ',' << hx(p.pos[tid][2]) << ' '
                   << hx(p.dir[tid][0]) << ',' << hx(p.dir[tid][1]) << ',' << hx(p.dir[tid][2]);
            }
            r.text = os.str();
            out.push_back(std::move(r));
        }
    }

    std::vector<std::vector<Rec>> bufs;
    ActionRegistry const* reg{nullptr};
    std::shared_ptr<SimpleCalo> calo;
};

class Problem : public test::SimpleTestBase
{
  public:
    void TestBody() override {}
    using test::SimpleTestBase::particle;

    // GlobalTestBase::build_core with max_streams and without the debug status checker
    std::shared_ptr<CoreParams> make_core(size_type max_streams)
    {
        CoreParams::Input inp;
        inp.geometry = this->geometry();
        inp.material = this->material();
        inp.geomaterial = this->geomaterial();
        inp.particle = this->particle();
        inp.cutoff = this->cutoff();
        inp.physics = this->physics();
        inp.rng = this->rng();
        inp.sim = this->sim();
        inp.init = this->init();
        inp.wentzel = this->wentzel();
        inp.action_reg = this->action_reg();
        inp.output_reg = this->output_reg();
        inp.aux_reg = this->aux_reg();
        inp.max_streams = max_streams;
        auto&& along_step = this->along_step();
        CELER_VALIDATE(along_step, << "no along-step action");
        return std::make_shared<CoreParams>(std::move(inp));
    }
};

Real3 iso(SplitMix& g)
{
    double c = 2 * g.uni() - 1, phi = 6.283185307179586 * g.uni();
    double s = std::sqrt(std::max(0.0, 1 - c * c));
    return make_unit_vector(Real3{s * std::cos(phi), s * std::sin(phi), c});
}

std::vector<Primary> make_primaries(ParticleParams const& pp, unsigned event, unsigned n)
{
    SplitMix g{0x1234567ull + 7919ull * event};
    std::vector<Primary> out;
    for (unsigned i = 0; i < n; ++i)
    {
        Primary p;
        p.event_id = EventId{event};
        p.time = 0;
        p.particle_id = pp.find(pdg::gamma());
        p.energy = units::MevEnergy{std::pow(10.0, -0.5 + 2.5 * g.uni())};
        p.position = {-6 + 12 * g.uni(), -4 + 8 * g.uni(), -4 + 8 * g.uni()};
        p.direction = iso(g);
        out.push_back(p);
    }
    return out;
}

struct Work
{
    unsigned event, nprim;
};
struct Result
{
    unsigned event, stream, ntracks, nsteps, ncalls;
    std::uint64_t digest;
};
}  // namespace

int main(int argc, char** argv)
{
    if (argc != 5)
    {
        std::cerr << "usage: streams <conc|serial> <max_streams> <slots> <yield_seed>\n";
        return 2;
    }
    bool const conc = std::string(argv[1]) == "conc";
    size_type const max_streams = std::stoul(argv[2]);
    size_type const slots = std::stoul(argv[3]);
    std::uint64_t const yield_seed = std::stoull(argv[4]);

    std::vector<std::vector<Work>> work(max_streams);
    {
        std::string line;
        while (std::getline(std::cin, line))
        {
            if (line.empty())
                continue;
            std::istringstream is(line);
            char c;
            unsigned s, e, n;
            is >> c >> s >> e >> n;
            if (!is || c != 'A' || s >= max_streams)
            {
                std::cerr << "bad line: " << line << std::endl;
                return 2;
            }
            work[s].push_back({e, n});
        }
    }

    int rc = 0;
    try
    {
        Problem prob;
        auto core = prob.make_core(max_streams);
        auto rec = std::make_shared<Recorder>(max_streams);
        rec->reg = core->action_reg().get();
        auto calo = std::make_shared<SimpleCalo>(
            std::vector<Label>{Label{"inner"}, Label{"world"}}, *core->geometry(), max_streams);
        rec->calo = calo;
        auto collector = StepCollector::make_and_insert(*core, {rec});
        auto action_diag = ActionDiagnostic::make_and_insert(*core);
        auto step_diag = StepDiagnostic::make_and_insert(*core, 200);
        ParticleParams const& particles = *core->particle();

        std::vector<std::vector<Result>> results(max_streams);
        std::vector<std::string> errors(max_streams);
        std::atomic<int> ready{0};
        int nactive = 0;
        for (auto const& w : work)
            nactive += !w.empty();

        auto run_stream = [&](unsigned s) {
            try
            {
                if (conc)
                {
                    // start together
                    ++ready;
                    while (ready.load() < nactive)
                        std::this_thread::yield();
                }
                SplitMix yg{yield_seed * 1000003ull + s};
                StepperInput inp;
                inp.params = core;
                inp.stream_id = StreamId{s};
                inp.num_track_slots = slots;
                Stepper<MemSpace::host> step(inp);
                for (Work const& w : work[s])
                {
                    auto& buf = rec->bufs[s];
                    buf.clear();
                    step.reseed(UniqueEventId{w.event});
                    auto prim = make_primaries(particles, w.event, w.nprim);
                    unsigned calls = 1;
                    StepperResult r = step(make_span(prim));
                    while (r)
                    {
                        if (conc && yield_seed && (yg.next() & 15) == 0)
                            std::this_thread::yield();
                        r = step();
                        ++calls;
                        if (calls > 500000)
                            throw std::runtime_error("runaway event");
                    }
                    std::stable_sort(buf.begin(), buf.end(), [](Rec const& a, Rec const& b) {
                        return std::make_tuple(a.event, a.track, a.step) < std::make_tuple(b.event, b.track, b.step);
                    });
                    std::uint64_t h = 1469598103934665603ull;
                    unsigned ntracks = 0, last = ~0u;
                    for (auto const& x : buf)
                    {
                        if (x.event != w.event)
                            throw std::runtime_error("step record of a foreign event in this stream's buffer");
                        std::string ln = std::to_string(x.track) + ' ' + std::to_string(x.step) + ' ' + x.text;
                        for (unsigned char c : ln)
                            h = (h ^ c) * 1099511628211ull;
                        h = (h ^ '\n') * 1099511628211ull;
                        if (x.track != last)
                        {
                            ++ntracks;
                            last = x.track;
                        }
                    }
                    results[s].push_back({w.event, s, ntracks, static_cast<unsigned>(buf.size()), calls, h});
                }
            }
            catch (std::exception const& e)
            {
                errors[s] = e.what();
            }
        };

        if (conc)
        {
            std::vector<std::thread> threads;
            for (unsigned s = 0; s < max_streams; ++s)
                if (!work[s].empty())
                    threads.emplace_back(run_stream, s);
            for (auto& t : threads)
                t.join();
        }
        else
        {
            for (unsigned s = 0; s < max_streams; ++s)
                if (!work[s].empty())
                    run_stream(s);
        }

        std::vector<Result> all;
        for (auto const& v : results)
            all.insert(all.end(), v.begin(), v.end());
        std::stable_sort(all.begin(), all.end(), [](Result const& a, Result const& b) { return a.event < b.event; });
        for (auto const& r : all)
        {
            std::cout << "V " << r.event << ' ' << r.stream << ' ' << r.ntracks << ' ' << r.nsteps << ' ' << r.ncalls
                      << ' ' << std::hex << r.digest << std::dec << '\n';
        }
        for (unsigned s = 0; s < max_streams; ++s)
        {
            if (!errors[s].empty())
            {
                std::string m = errors[s];
                std::replace(m.begin(), m.end(), '\n', ' ');
                std::cout << "X stream " << s << ": " << m << '\n';
                rc = 3;
            }
        }
        for (auto const& kv : action_diag->calc_actions_map())
            std::cout << "DA " << kv.first << ' ' << kv.second << '\n';
        {
            auto steps = step_diag->calc_steps();
            for (std::size_t p = 0; p < steps.size(); ++p)
                for (std::size_t b = 0; b < steps[p].size(); ++b)
                    if (steps[p][b])
                        std::cout << "DS " << p << ' ' << b << ' ' << steps[p][b] << '\n';
        }
        {
            // process-wide registries (documented as setup-only / not thread safe): their content
            // after the run must not depend on whether the streams were built concurrently
            auto const& mr = celeritas::mem_registry();
            std::cout << "MR " << mr.size() << ' ' << mr.depth() << '\n';
            for (MemUsageId::size_type i = 0; i < mr.size(); ++i)
            {
                auto const& e = mr.get(MemUsageId{i});
                std::string lab = e.label;
                std::replace(lab.begin(), lab.end(), ' ', '_');
                std::cout << "ME " << i << ' ' << (lab.empty() ? std::string("-") : lab) << ' '
                          << (e.parent_index ? static_cast<long>(e.parent_index.unchecked_get()) : -1L) << '\n';
            }
            std::cout << "KR " << celeritas::kernel_registry().num_kernels() << '\n';
            std::vector<std::string> keys;
            for (auto const& kv : celeritas::environment().ordered_environment())
                keys.push_back(kv.get().first);
            std::sort(keys.begin(), keys.end());
            for (auto const& k : keys)
                std::cout << "EN " << k << '\n';
        }
        {
            auto tot = calo->calc_total_energy_deposition();
            for (std::size_t d = 0; d < tot.size(); ++d)
                std::cout << "K " << d << ' ' << hx(tot[d]) << '\n';
        }
    }
    catch (std::exception const& e)
    {
        std::string m = e.what();
        std::replace(m.begin(), m.end(), '\n', ' ');
        std::cout << "X setup: " << m << std::endl;
        return 3;
    }
    return rc;
}
