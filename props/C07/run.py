"""C07 -- concurrent streams sharing problem parameters do not interfere (PARTIAL by nature).

1. translator (translators/shared_mutable.py) regenerates coq/Generated/C07_cells.v;
2. Properties_C07.v: interleaving_equals_serial, assignment_independence (model) +
   generated obligations all_cells_guarded / guard_table_current (the no-data-race
   hypothesis is tied by a reviewed inventory, not proved);
3. search: harness/streams.cc, 2..16 std::threads each with its own Stepper/CoreState
   (constructed inside the thread) over ONE CoreParams with StepCollector, SimpleCalo,
   ActionDiagnostic, StepDiagnostic: concurrent vs serial, several event-to-stream
   assignments, compared bit-exactly;
4. thorough tier: the same harness against a -fsanitize=thread build of the libraries
   (/verif/_build/tsan); any ThreadSanitizer report is a violation.
"""
import math
import os
import re
import struct
import sys

import vlib

HERE = os.path.dirname(os.path.abspath(__file__))
sys.path.insert(0, os.path.join(vlib.VERIF, "translators"))
import shared_mutable  # noqa: E402
sys.path.insert(0, HERE)
import stores_tie  # noqa: E402

LIBS = "testcel_celeritas testcel_harness testcel_core testcel_geocel celeritas orange geocel corecel".split()
PRE = ("From Coq Require Import String List Bool.\n"
       "From Celer Require Import Generated.C07_cells C07.Cells.\n"
       "Import ListNotations.\nOpen Scope string_scope.\n")
_DEFAULT_BUILD = os.path.join(vlib.VERIF, "_build", "rel")
# the TSan build follows VERIF_BUILD (isolated re-tests build their own instrumented libraries
# from VERIF_REPO): /verif/_build/tsan for the default build, <VERIF_BUILD>_tsan otherwise
TSAN = os.environ.get("VERIF_TSAN_BUILD") or (os.path.join(vlib.VERIF, "_build", "tsan")
                                              if os.path.abspath(vlib.BUILD) == _DEFAULT_BUILD else vlib.BUILD.rstrip("/") + "_tsan")
# Findings that are reproduced on the current tree, reported to the coordinator and whose repair is
# pending (NOTES.md, F-C07-1).  While a signature is listed here it is logged as a note instead of a
# VIOLATION; REMOVE the entry once the repair is committed so that a regression is a plain violation.
PENDING_FIX = set()   # F-C07-1 (tsan:celeritas::ActionDiagnostic) repaired in /repo 63841d1: a regression is a plain VIOLATION
SLOTS = 8


def hexd(h):
    return struct.unpack(">d", bytes.fromhex(h))[0]


def parse(out):
    r = {"V": {}, "D": [], "K": {}, "X": [], "stream_of": {}, "REG": []}
    for ln in out.splitlines():
        t = ln.split()
        if not t:
            continue
        if t[0] == "V":
            r["V"][int(t[1])] = tuple(t[3:])
            r["stream_of"][int(t[1])] = int(t[2])
        elif t[0] in ("DA", "DS"):
            r["D"].append(ln)
        elif t[0] == "K":
            r["K"][int(t[1])] = t[2]
        elif t[0] in ("MR", "ME", "KR"):     # EN (environment keys) is informative only: it depends on what was logged
            r["REG"].append(ln)
        elif t[0] == "X":
            r["X"].append(ln)
    r["D"].sort()
    return r


def assignment_text(asg):
    return "".join("A %d %d %d\n" % a for a in asg)


def run(ctx):
    quick = ctx.tier == "quick"
    ctx.level = "proof"
    ctx.trusted += [
        "model coq/C07/Streams.v: a step of stream i updates index i only and parameters are immutable -- this SHAPE is the "
        "no-data-race hypothesis; it is tied by the reviewed inventory coq/C07/Cells.v (obligation all_cells_guarded) and by "
        "ThreadSanitizer (thorough tier), not proved",
        "translators/shared_mutable.py: textual scan for mutable members, non-const statics/globals, members assigned in "
        "begin_run, const_cast; state reached through pointers held by const objects is not seen by it",
        "ThreadSanitizer (gcc 12 libtsan): observes only the schedules that actually happen",
        "C++ memory model / compiler; OpenMP runtime (the harness uses std::thread)",
    ]
    ctx.assumptions += [
        "host streams only (device streams/CUDA are not covered)",
        "all streams use the same number of track slots (needed to compare events across assignments, see C06)",
        "the debug StatusChecker is not attached (listed in the inventory as unguarded, debug-only)",
    ]

    # ---- 1. translator -----------------------------------------------------
    cells = shared_mutable.generate(vlib.REPO)
    uses = shared_mutable.generate_uses(vlib.REPO)
    txt = shared_mutable.emit(cells, vlib.REPO, uses)
    os.makedirs(os.path.dirname(shared_mutable.OUT), exist_ok=True)
    old = open(shared_mutable.OUT).read() if os.path.exists(shared_mutable.OUT) else None
    if old != txt:
        with open(shared_mutable.OUT, "w") as f:
            f.write(txt)
    ctx.log("translator: %d potentially shared mutable cells, %d use sites of unsynchronised-cell writers (%d flagged per-stream)" % (
        len(cells), len(uses), sum(1 for u in uses if u[3])))
    ctx.coverage["unsync_use_sites"] = len(uses)
    ctx.coverage["cells"] = len(cells)
    for k in sorted({c[2] for c in cells}):
        ctx.count("cell-kind:" + k, sum(1 for c in cells if c[2] == k))

    # ---- 1b. source shapes behind the index model of StreamStore / AuxStateVec (coq/C07/Stores.v)
    bad_shapes = stores_tie.check_shapes(ctx)
    if bad_shapes:
        ctx.violation("tie-broken", "per-stream store shape no longer recognised: %s" % bad_shapes[0],
                      {"unrecognised_shapes": bad_shapes}, no_input=True)

    # ---- 2. proofs -----------------------------------------------------------
    proofs_ok = ctx.coq_prove("Properties_C07.v")
    unguarded = stale = offending = None
    if not proofs_ok:
        ok, _ = ctx.coq_build(["C07/Cells.vo"])
        if ok:
            try:
                unguarded, stale, offending = ctx.coq_eval("oblig", PRE, ["unguarded_cells", "stale_rows", "unsync_uses_offending"])
                ctx.broken_proof["unguarded_cells"] = unguarded
                ctx.broken_proof["stale_rows"] = stale
                ctx.broken_proof["unsync_uses_offending"] = offending
            except Exception as ex:
                ctx.notes.append("could not evaluate obligations: %s" % ex)

    # ---- 3. concurrent vs serial ----------------------------------------------
    ctx.build_libs(["testcel_celeritas"])
    src = os.path.join(HERE, "harness", "streams.cc")
    exe = ctx.compile_harness([src], "streams", libs=LIBS, test_includes=True, extra=["-pthread"])
    rng = ctx.rng
    nviol = 0

    per_kind = {}

    def report(kind, what, rep, **kw):
        # at most 4 replay files per kind (data-race reports are already distinct by signature),
        # so that a flood of one kind cannot hide another
        nonlocal nviol
        nviol += 1
        per_kind[kind] = per_kind.get(kind, 0) + 1
        if per_kind[kind] <= (8 if kind == "data-race" else 4):
            ctx.violation(kind, what, rep, **kw)

    n_events = 20 if quick else 60
    events = sorted(rng.sample(range(1, 900), n_events))
    nprim = {e: rng.choice([2, 3, 3, 4]) for e in events}

    def make_assignment(nstreams):
        order = events[:]
        rng.shuffle(order)
        style = rng.choice(["uniform", "round-robin", "skewed"])
        asg = []
        for k, e in enumerate(order):
            if style == "uniform":
                s = rng.randrange(nstreams)
            elif style == "round-robin":
                s = k % nstreams
            else:
                s = min(int(rng.expovariate(1.5)), nstreams - 1)
            asg.append((s, e, nprim[e]))
        return asg

    env = {"CELER_LOG": "error", "CELER_LOG_LOCAL": "error"}

    def go(exe_, mode, nstreams, asg, yseed, env_=None, timeout=1200):
        e = dict(env)
        if env_:
            e.update(env_)
        rc, out = ctx.run_harness(exe_, [mode, str(nstreams), str(SLOTS), str(yseed)], input=assignment_text(asg),
                                  timeout=timeout, env=e)
        return rc, out

    # canonical per-event results: every event alone on stream 0 of a 1-stream problem
    rc, out = go(exe, "serial", 1, [(0, e, nprim[e]) for e in events], 0)
    ref = parse(out)
    if rc != 0 or ref["X"] or len(ref["V"]) != len(events):
        raise vlib.BuildError("reference (single stream) run failed rc=%d" % rc, out[-2000:])

    thread_counts = [2, 3, 4, 8, 16] if quick else [2, 3, 4, 5, 8, 12, 16]
    reps = 2 if quick else 6
    ncmp = 0
    for nstreams in thread_counts:
        for rep in range(reps):
            asg = make_assignment(nstreams)
            yseed = rng.randrange(1, 1 << 30) if rep % 2 == 0 else 0
            label = {"threads": nstreams, "slots": SLOTS, "yield_seed": yseed, "assignment": assignment_text(asg).splitlines(),
                     "command": "CELER_DISABLE_PARALLEL=1 %s conc %d %d %d < assignment" % (exe, nstreams, SLOTS, yseed)}
            rc_c, out_c = go(exe, "conc", nstreams, asg, yseed)
            rc_s, out_s = go(exe, "serial", nstreams, asg, yseed)
            c, s = parse(out_c), parse(out_s)
            ctx.count("threads:%d" % nstreams)
            if rc_s != 0 or s["X"]:
                raise vlib.BuildError("serial multi-stream run failed rc=%d" % rc_s, out_s[-2000:])
            if rc_c != 0 or c["X"]:
                report("concurrent-run-failed", "concurrent run failed/threw while the serial run of the same assignment did not",
                       dict(label, rc=rc_c, output_tail=out_c[-1500:]))
                continue
            # (a) same assignment: everything identical to the last bit
            for e in events:
                ncmp += 1
                ctx.case((nstreams, rep, e, c["stream_of"].get(e)), nontrivial=len({a[0] for a in asg}) > 1)
                if c["V"].get(e) != s["V"].get(e):
                    report("interference", "event %d: concurrent result differs from the serial run of the same assignment" % e,
                           dict(label, event=e, concurrent=c["V"].get(e), serial=s["V"].get(e)))
                # (b) C06 corollary: independent of the assignment
                if s["V"].get(e) != ref["V"].get(e):
                    report("assignment-dependence", "event %d: result on stream %s after other events differs from the single-stream reference"
                           % (e, s["stream_of"].get(e)), dict(label, event=e, this=s["V"].get(e), reference=ref["V"].get(e)))
            if c["D"] != s["D"] or c["K"] != s["K"]:
                report("interference", "diagnostic / calorimeter tallies differ between concurrent and serial execution",
                       dict(label, concurrent={"D": c["D"], "K": c["K"]}, serial={"D": s["D"], "K": s["K"]}))
            if c["REG"] != s["REG"]:
                d_ = [(a, b) for a, b in zip(c["REG"] + [None] * len(s["REG"]), s["REG"] + [None] * len(c["REG"])) if a != b][:6]
                report("interference", "process-wide registries (MemRegistry / KernelRegistry) differ between concurrent and serial execution",
                       dict(label, first_differences=d_, concurrent_entries=len(c["REG"]), serial_entries=len(s["REG"])))
            if s["D"] != ref["D"]:
                report("assignment-dependence", "integer diagnostics (action / step counts) depend on the event-to-stream assignment",
                       dict(label, this=s["D"], reference=ref["D"]))
            for d, h in s["K"].items():
                a, b = hexd(h), hexd(ref["K"].get(d, "0" * 16))
                if not math.isclose(a, b, rel_tol=1e-11, abs_tol=1e-300):
                    report("assignment-dependence", "calorimeter total depends on the assignment beyond summation order",
                           dict(label, detector=d, this=a, reference=b))
            ctx.sample({"threads": nstreams, "streams_used": len({a[0] for a in asg}), "events": len(events),
                        "yield_seed": yseed, "steps": sum(int(v[1]) for v in c["V"].values())})
    ctx.log("compared %d (event, run) pairs concurrent vs serial vs single-stream reference; %d differences" % (ncmp, nviol))
    ctx.coverage["traces_validated_against_impl"] = ncmp
    ctx.coverage["rule"] = ("case = (thread count, assignment, event, stream); compared bit-exactly: per-event (tracks, steps, stepper calls, "
                            "FNV digest over all step fields) concurrent vs serial-by-stream vs single-stream reference; ActionDiagnostic and "
                            "StepDiagnostic counts; SimpleCalo totals (bit-exact for equal assignments, rtol 1e-11 across assignments); "
                            "non-trivial = more than one stream was used")

    # ---- 4. ThreadSanitizer (thorough) -------------------------------------------
    if not quick:
        tsan_reports = run_tsan(ctx, src, events, nprim, make_assignment, report)
        ctx.coverage["tsan_runs"] = tsan_reports
    else:
        ctx.notes.append("ThreadSanitizer runs are part of the thorough tier only")

    if not proofs_ok and nviol == 0:
        what = "Properties_C07.v no longer checks"
        if unguarded:
            what = "new potentially shared mutable cell(s) without a reviewed guard: %s" % (
                ", ".join("%s:%s (%s)" % tuple(u) for u in unguarded[:6]))
        elif offending:
            what = "unsynchronised global cell written from an unreviewed or per-stream use site: %s" % (
                "; ".join("%s in %s (%s)%s" % (u[2], u[1], u[0], " [PER-STREAM PATH]" if u[3] else "") for u in offending[:6]))
        elif stale:
            what = "guard table rows no longer match any cell: %r" % (stale[:6],)
        ctx.violation("proof-broken", what, ctx.broken_proof, no_input=True)


def run_tsan(ctx, src, events, nprim, make_assignment, report):
    """build the libraries with -fsanitize=thread and run the harness under TSan"""
    os.makedirs(TSAN, exist_ok=True)
    import fcntl
    with open(os.path.join(vlib.VERIF, "_build", "tsan.lock"), "w") as lf:
        fcntl.flock(lf, fcntl.LOCK_EX)
        if not os.path.exists(os.path.join(TSAN, "build.ninja")):
            args = []
            for a in vlib.CMAKE_ARGS:
                if a == vlib.BUILD:
                    a = TSAN
                elif a.startswith("-DCMAKE_CXX_FLAGS="):
                    a = a + " -fsanitize=thread"
                args.append(a)
            args += ["-DCMAKE_SHARED_LINKER_FLAGS=-fsanitize=thread", "-DCMAKE_EXE_LINKER_FLAGS=-fsanitize=thread"]
            rc, out = vlib.sh(["cmake"] + args, timeout=1800)
            if rc != 0:
                raise vlib.BuildError("cmake configure of the TSan build failed", out[-3000:])
        rc, out = vlib.sh(["nice", "-n", "5", "ninja", "-C", TSAN, "celeritas", "testcel_celeritas"], timeout=6000)
        ctx.log("TSan library build: rc=%d" % rc)
        if rc != 0:
            raise vlib.BuildError("TSan library build failed", out[-4000:])
    fl = ["-std=c++17", "-O1", "-g", "-fopenmp", "-fsanitize=thread", "-pthread", "-Wno-deprecated-declarations",
          "-I%s/src" % vlib.REPO, "-I%s/include" % TSAN, "-isystem", "%s/include" % vlib.MINICONDA,
          "-isystem", "/usr/lib/x86_64-linux-gnu/openmpi/include", "-I%s/test" % vlib.REPO, "-I%s/test" % TSAN]
    ld, rp = [], set()
    for l in LIBS:
        d = os.path.join(TSAN, vlib.LIB_DIRS[l])
        ld += ["-L" + d, "-l" + l]
        rp.add(d)
    ld += ["-L%s/lib" % vlib.MINICONDA, "-lgtest"]
    rp.add("%s/lib" % vlib.MINICONDA)
    for d in sorted(rp):
        ld.append("-Wl,-rpath," + d)
    exe = os.path.join(ctx.work, "streams_tsan")
    rc, out = vlib.sh(["g++"] + fl + [src, "-o", exe] + ld, timeout=1800)
    ctx.log("compiled streams_tsan: rc=%d" % rc)
    if rc != 0:
        raise vlib.BuildError("TSan harness compile failed", out[-4000:])
    supp = os.path.join(HERE, "tsan.supp")
    nruns = 0
    seen_sigs = {}
    rng = ctx.rng
    for nstreams in [2, 3, 4, 8, 16]:
        for rep in range(3):
            asg = make_assignment(nstreams)
            yseed = rng.randrange(1, 1 << 30)
            logp = os.path.join(ctx.work, "tsan_%d_%d" % (nstreams, rep))
            for f in os.listdir(ctx.work):
                if f.startswith(os.path.basename(logp) + "."):
                    os.remove(os.path.join(ctx.work, f))
            env = {"CELER_LOG": "error", "CELER_LOG_LOCAL": "status",
                   "TSAN_OPTIONS": "halt_on_error=0 exitcode=0 second_deadlock_stack=1 history_size=4 suppressions=%s log_path=%s" % (supp, logp)}
            rc, out = ctx.run_harness(exe, ["conc", str(nstreams), str(SLOTS), str(yseed)], input=assignment_text(asg),
                                      timeout=3000, env=env)
            nruns += 1
            ctx.count("tsan-threads:%d" % nstreams)
            rep_txt = ""
            for f in sorted(os.listdir(ctx.work)):
                if f.startswith(os.path.basename(logp) + "."):
                    rep_txt += open(os.path.join(ctx.work, f), errors="replace").read()
            label = {"threads": nstreams, "slots": SLOTS, "yield_seed": yseed, "assignment": assignment_text(asg).splitlines(),
                     "command": "TSAN_OPTIONS=... %s conc %d %d %d < assignment" % (exe, nstreams, SLOTS, yseed)}
            if "ThreadSanitizer" in rep_txt:
                blocks = [b_ for b_ in rep_txt.split("==================") if "WARNING: ThreadSanitizer" in b_]
                for blk in blocks or [rep_txt[:6000]]:
                    # signature: the first non-template celeritas function in the stack of the racing access
                    sig = "tsan:unknown"
                    for m in re.finditer(r"#\d+ ((?:non-virtual thunk to )?celeritas::[^\n]*?) /", blk):
                        fn = m.group(1).split("(")[0]
                        if "<" not in fn and "thunk" not in fn:
                            parts = fn.strip().split("::")
                            # class-level signature: one unsynchronised publication shows up in
                            # several member functions of the same object
                            sig = "tsan:" + "::".join(parts[:-1] if len(parts) > 2 else parts)
                            break
                    if sig in seen_sigs:
                        seen_sigs[sig] += 1
                        continue
                    seen_sigs[sig] = 1
                    if sig in PENDING_FIX and not any(k.get("signature") == sig for k in ctx.known):
                        ctx.notes.append("finding '%s' reproduced on the implementation but NOT reported (repair pending, gated in "
                                         "props/C07/run.py PENDING_FIX): ThreadSanitizer data race with %d threads; first report: %s"
                                         % (sig, nstreams, " ".join(blk.split())[:700]))
                        ctx.log("finding '%s' reproduced; pending fix (gated)" % sig)
                        ctx.count("gated-finding:" + sig)
                        continue
                    report("data-race", "ThreadSanitizer report with %d threads: %s" % (nstreams, sig),
                           dict(label, report=blk[:6000], reports_in_this_run=len(blocks)), signature=sig)
            elif rc != 0:
                report("concurrent-run-failed", "TSan-instrumented concurrent run failed rc=%d" % rc, dict(label, output_tail=out[-1500:]))
    ctx.log("ThreadSanitizer: %d concurrent runs; distinct reports: %r" % (nruns, seen_sigs))
    ctx.coverage["tsan_report_signatures"] = seen_sigs
    return nruns
