"""C05 — step history continuity and step limits: Coq proofs (Properties_C05.v)
+ unit differential of SimTrackView::step_limit / TimeUpdater / TrackUpdater
against the float model + step-stream monitor on real Stepper runs (shares the
harnesses and the run generator of C01)."""
import os, sys
import vlib

HERE = os.path.dirname(os.path.abspath(__file__))
C01 = os.path.join(os.path.dirname(HERE), "C01")
sys.path.insert(0, C01)
import monitor as M
import unitdiff as U


def f5_specs(rng, tier):
    """allocation-failure regime: SimpleTestBase with a tiny secondary stack"""
    specs = []
    n = 2 if tier == "quick" else 12
    for k in range(n):
        slots = [8, 7, 2, 64][k % 4]
        prims = [(0, 100.0, [-22.0, 0.0, 0.0], [1.0, 0.0, 0.0], 0) for _ in range(16)]
        specs.append(dict(problem="P1", cutmode=0, ecut=1000.0, seed=7 if k == 0 else rng.randrange(1, 10 ** 6),
                          slots=slots, capacity=4096, stack=0.2 if slots >= 7 else 0.5, kill_at=-1,
                          max_iters=20000, prims=prims))
    return specs


def run(ctx):
    ctx.trusted += [
        "hand-written model coq/C05/StepModel.v (+ coq/C01/LedgerModel.v) tied by (a) unit differential against the real SimTrackView::step_limit, TimeUpdater, TrackUpdater (props/C01/unitdiff.py, props/C01/harness/unit.cc) and (b) the step-stream monitor on real Stepper runs (props/C01/monitor.py stream_check, props/C01/harness/loop.cc)",
        "independent point location = fresh GeoTrackView initialisation at the step midpoint / post point (ORANGE itself; C03 checks that initialisation)",
        "the repo's own test fixtures SimpleTestBase/MockTestBase (libtestcel_celeritas) as problem definitions",
    ]
    ctx.assumptions += [
        "linear propagation without MSC (NoMsc, LinearPropagator): field and MSC displacement geometry is C08/C11's",
        "steps_join relies on no action between user_post of iteration k and user_pre of k+1 writing a live slot (C02 exactly_once); it is checked on the real loop by the monitor",
        "energy_nonincreasing assumes 0 <= eloss <= E (C01 eloss_le_energy) and outgoing <= incoming energy of an interaction (C04)",
    ]
    proofs_ok = ctx.coq_prove("Properties_C05.v")
    ok, _ = ctx.coq_build(["C05/Run.vo"])
    if not ok:
        ctx.violation("model-broken", "the executable model coq/C05 no longer compiles", getattr(ctx, "broken_proof", {}), no_input=True)
        return
    ctx.build_libs(M.LIBS)
    found_input = False
    found_input |= U.unit_differential_c05(ctx)

    exe = ctx.compile_harness([os.path.join(C01, "harness", "loop.cc")], "loop", libs=M.LIBS, test_includes=True)
    specs = M.gen_specs(ctx.rng, ctx.tier) + M.gen_specs_extra(ctx.rng, ctx.tier) + M.gen_specs_sweep(ctx.rng, ctx.tier) + M.gen_specs_msc(ctx.rng, ctx.tier) + f5_specs(ctx.rng, ctx.tier)
    rc, out = M.execute(ctx, exe, specs)
    runs = M.parse_runs(out, specs)
    if rc != 0 or len(runs) != len(specs) or any(r.end is None for r in runs):
        raise vlib.BuildError("loop harness failed rc=%d (%d/%d runs)" % (rc, len(runs), len(specs)), out[-3000:])
    tot = {}
    nviol = 0
    f5_reported = 0
    for run_ in runs:
        s = run_.spec
        ctx.count("problem:%s/cut%d%s" % (s["problem"], s["cutmode"], "/tiny-stack" if s["stack"] < 1 else ""))
        ctx.count("slots:%d" % s["slots"])
        for _o in ("disable_integral_xs", "linear_loss_limit", "lowest", "min_range", "msc_emin", "msc_xs"):
            if s.get(_o):
                ctx.count("option:" + _o)
        ctx.count("track_order:" + M.TRACK_ORDERS[s.get("track_order", 0)])
        if s.get("fixed_limit"):
            ctx.count("fixed_step_limiter")
        ctx.count("capacity:%s" % ("ample" if s["capacity"] >= 4096 else "tight"))
        if run_.exc:
            ctx.count("run-threw:" + ("capacity" if "capacity" in run_.exc else "other"))
            if "capacity" not in run_.exc:
                ctx.notes.append("stepper threw: " + run_.exc[:300])
        viol, st = M.stream_check(run_)
        for k, v in st.items():
            tot[k] = max(tot.get(k, 0), v) if k == "max_disp_excess" else tot.get(k, 0) + v
        key = (s["problem"], s["cutmode"], s["seed"], s["slots"], s["capacity"], s["stack"], s.get("track_order", 0), s.get("fixed_limit", 0))
        ctx.case(key, nontrivial=st["pairs"] > 0)
        ctx.sample(dict(problem=s["problem"], cutmode=s["cutmode"], slots=s["slots"], capacity=s["capacity"],
                        stack_factor=s["stack"], primaries=len(s["prims"]), stats=st, threw=run_.exc))
        for kind, what, detail, sig in viol:
            if sig == M.F5_SIGNATURE:
                f5_reported += 1
                if f5_reported > 1:
                    continue
            else:
                nviol += 1
                if nviol > 4:
                    continue
            found_input = True
            detail = dict(detail)
            ctx.violation(kind, "%s [%s cut=%d slots=%d cap=%d stack_factor=%g seed=%d track_order=%s fixed_step_limiter=%g]" % (
                what, s["problem"], s["cutmode"], s["slots"], s["capacity"], s["stack"], s["seed"],
                M.TRACK_ORDERS[s.get("track_order", 0)], s.get("fixed_limit", 0.0)),
                dict(spec=dict(s), harness_input=M.spec_line(s), detail=detail,
                     model="coq/Properties_C05.v C05_step_ge_displacement_refuted" if sig else None),
                signature=sig)
    ctx.log("step-stream monitor: %r" % tot)
    ctx.coverage["step_stream_monitor"] = tot
    ctx.coverage["rule"] = ("unit cases = (step_limit call sequences; TimeUpdater/TrackUpdater slot states) from VERIF_SEED; loop cases = (problem, cut mode, RNG seed, "
                            "slots, initializer capacity, secondary stack factor, primaries); a loop case is non-trivial when some track has at least two consecutive records")
    ctx.coverage["traces_validated_against_impl"] = tot.get("records", 0)
    if not proofs_ok and not found_input:
        ctx.violation("proof-broken", "Properties_C05.v no longer checks", ctx.broken_proof, no_input=True)
    elif not proofs_ok:
        ctx.notes.append("Properties_C05.v no longer checks: %r" % (ctx.broken_proof.get("errors"),))
