(* C17 model driver: reads the ground-truth part (PRE/POST lines) of a loop.cc
   dump plus the combined collector parameters, runs the extracted Coq model
   (Gather_model) and prints what must be visible to / delivered to the
   callbacks and the tallies, in the same textual normal form as loop.cc.

   F is instantiated with int64 bit patterns of binary64 values. *)
open Gather_model

(* ---- conversions (glue, trusted) ---- *)
let rec pos_of_int n =
  if n = 1 then XH
  else if n land 1 = 0 then XO (pos_of_int (n lsr 1))
  else XI (pos_of_int (n lsr 1))
let z_of_int n = if n = 0 then Z0 else if n > 0 then Zpos (pos_of_int n) else Zneg (pos_of_int (-n))
let rec int_of_pos = function
  | XH -> 1
  | XO p -> 2 * int_of_pos p
  | XI p -> 2 * int_of_pos p + 1
let int_of_z = function Z0 -> 0 | Zpos p -> int_of_pos p | Zneg p -> - (int_of_pos p)
let rec nat_of_int n = if n <= 0 then O else S (nat_of_int (n - 1))
let rec int_of_nat = function O -> 0 | S n -> 1 + int_of_nat n

let f_of_string s = Int64.of_string ("0x" ^ s)
let string_of_f x = Printf.sprintf "%016Lx" x
let fzero = 0L
let is_zero x = Int64.float_of_bits x = 0.0
let fadd a b = Int64.bits_of_float (Int64.float_of_bits a +. Int64.float_of_bits b)

let status_of_int = function
  | 0 -> Inactive | 1 -> Initializing | 2 -> Alive | 3 -> Errored | 4 -> Killed
  | _ -> failwith "bad status"

let split s = List.filter (fun t -> t <> "") (String.split_on_char ' ' s)

let dummy_vec = ((fzero, fzero), fzero)
let inactive_pre = { a_status = Inactive; a_time = fzero; a_pos = dummy_vec; a_dir = dummy_vec;
                     a_outside = false; a_vol = z_of_int (-1); a_energy = fzero }
let inactive_post = { b_status = Inactive; b_track = z_of_int (-1); b_event = z_of_int (-1);
                      b_parent = z_of_int (-1); b_nsteps = Z0; b_action = z_of_int (-1);
                      b_steplen = fzero; b_time = fzero; b_pos = dummy_vec; b_dir = dummy_vec;
                      b_outside = false; b_vol = z_of_int (-1); b_particle = z_of_int (-1);
                      b_energy = fzero; b_edep = fzero }

let vec3 a i = ((f_of_string a.(i), f_of_string a.(i + 1)), f_of_string a.(i + 2))

(* PRE iter slot status [time pos3 dir3 outside vol energy] *)
let parse_pre (a : string array) =
  let st = status_of_int (int_of_string a.(3)) in
  if st = Inactive then inactive_pre
  else { a_status = st; a_time = f_of_string a.(4); a_pos = vec3 a 5; a_dir = vec3 a 8;
         a_outside = (a.(11) = "1"); a_vol = z_of_int (int_of_string a.(12));
         a_energy = f_of_string a.(13) }

(* POST iter slot status track event parent nsteps action steplen time pos3 dir3 outside vol particle energy edep *)
let parse_post (a : string array) =
  let st = status_of_int (int_of_string a.(3)) in
  if st = Inactive then inactive_post
  else { b_status = st; b_track = z_of_int (int_of_string a.(4));
         b_event = z_of_int (int_of_string a.(5)); b_parent = z_of_int (int_of_string a.(6));
         b_nsteps = z_of_int (int_of_string a.(7)); b_action = z_of_int (int_of_string a.(8));
         b_steplen = f_of_string a.(9); b_time = f_of_string a.(10); b_pos = vec3 a 11;
         b_dir = vec3 a 14; b_outside = (a.(17) = "1"); b_vol = z_of_int (int_of_string a.(18));
         b_particle = z_of_int (int_of_string a.(19)); b_energy = f_of_string a.(20);
         b_edep = f_of_string a.(21) }

let psel_of_bits b k =
  let g i = (b lsr (k + i)) land 1 = 1 in
  { s_time = g 0; s_pos = g 1; s_dir = g 2; s_vol = g 3; s_energy = g 4 }
let selection_of_bits b =
  let g i = (b lsr i) land 1 = 1 in
  { s_pre = psel_of_bits b 0; s_post = psel_of_bits b 5; s_event = g 10; s_parent = g 11;
    s_nsteps = g 12; s_action = g 13; s_steplen = g 14; s_particle = g 15; s_edep = g 16 }

(* ---- printing in loop.cc's normal form ---- *)
let pr_idopt = function None -> "-1" | Some z -> string_of_int (int_of_z z)
let pr_z z = string_of_int (int_of_z z)
let pr_vec ((x, y), z) = string_of_f x ^ " " ^ string_of_f y ^ " " ^ string_of_f z

let print_field tag iter name f rows =
  print_string tag; print_char ' '; print_int iter; print_char ' '; print_string name;
  List.iter (fun r -> print_char ' '; print_string (f r)) rows;
  print_char '\n'

let print_view tag iter (p : params) rows =
  let s = p.p_sel in
  let fld b name f = if b then print_field tag iter name f rows in
  fld true "track" (fun r -> pr_idopt r.r_track);
  fld (has_det p) "det" (fun r -> pr_idopt r.r_det);
  fld s.s_event "event" (fun r -> pr_z r.r_event);
  fld s.s_parent "parent" (fun r -> pr_z r.r_parent);
  fld s.s_nsteps "nsteps" (fun r -> pr_z r.r_nsteps);
  fld s.s_action "action" (fun r -> pr_z r.r_action);
  fld s.s_steplen "steplen" (fun r -> string_of_f r.r_steplen);
  fld s.s_particle "particle" (fun r -> pr_z r.r_particle);
  fld s.s_edep "edep" (fun r -> string_of_f r.r_edep);
  let pt n ps get =
    fld ps.s_time (n ^ "time") (fun r -> string_of_f (get r).t_time);
    fld ps.s_pos (n ^ "pos") (fun r -> pr_vec (get r).t_pos);
    fld ps.s_dir (n ^ "dir") (fun r -> pr_vec (get r).t_dir);
    fld ps.s_vol (n ^ "vol") (fun r -> pr_z (get r).t_vol);
    fld ps.s_energy (n ^ "energy") (fun r -> string_of_f (get r).t_energy) in
  pt "pre." s.s_pre (fun r -> r.r_pre);
  pt "post." s.s_post (fun r -> r.r_post)

(* one expected record; unselected fields are printed as "-" *)
let print_spec iter (p : params) (slot, r) =
  let s = p.p_sel in
  let b = Buffer.create 256 in
  let add x = Buffer.add_char b ' '; Buffer.add_string b x in
  let opt c x = add (if c then x else "-") in
  Buffer.add_string b (Printf.sprintf "SPEC %d %d" iter (int_of_nat slot));
  add (pr_idopt r.r_track);
  opt (has_det p) (pr_idopt r.r_det);
  opt s.s_event (pr_z r.r_event); opt s.s_parent (pr_z r.r_parent);
  opt s.s_nsteps (pr_z r.r_nsteps); opt s.s_action (pr_z r.r_action);
  opt s.s_steplen (string_of_f r.r_steplen); opt s.s_particle (pr_z r.r_particle);
  opt s.s_edep (string_of_f r.r_edep);
  let pt ps t =
    opt ps.s_time (string_of_f t.t_time); opt ps.s_pos (pr_vec t.t_pos);
    opt ps.s_dir (pr_vec t.t_dir); opt ps.s_vol (pr_z t.t_vol);
    opt ps.s_energy (string_of_f t.t_energy) in
  pt s.s_pre r.r_pre; pt s.s_post r.r_post;
  print_endline (Buffer.contents b)

let print_list tag iter name f l =
  print_string tag; print_char ' '; print_int iter; print_char ' '; print_string name;
  List.iter (fun x -> print_char ' '; print_string (f x)) l;
  print_char '\n'

let print_detout iter (p : params) (o : int64 det_output) =
  let tag = "MDETOUT" in
  print_list tag iter "det" pr_idopt o.o_detector;
  print_list tag iter "track" pr_idopt o.o_track;
  print_list tag iter "event" pr_z o.o_event;
  print_list tag iter "parent" pr_z o.o_parent;
  print_list tag iter "nsteps" pr_z o.o_nsteps;
  print_list tag iter "steplen" string_of_f o.o_steplen;
  print_list tag iter "particle" pr_z o.o_particle;
  print_list tag iter "edep" string_of_f o.o_edep;
  let pt n (q : int64 det_point_output) =
    print_list tag iter (n ^ "time") string_of_f q.o_time;
    print_list tag iter (n ^ "pos") pr_vec q.o_pos;
    print_list tag iter (n ^ "dir") pr_vec q.o_dir;
    print_list tag iter (n ^ "energy") string_of_f q.o_energy in
  pt "pre." o.o_pre; pt "post." o.o_post

(* re-materialise closures so lookups stay O(1) deep (glue) *)
let freeze_tally n t =
  let a = Array.of_list (tally_list (nat_of_int n) t) in
  fun z -> let k = int_of_z z in if 0 <= k && k < n then a.(k) else fzero
let freeze_counts np nb c =
  let a = Array.of_list (List.map Array.of_list (counts_table (nat_of_int np) (nat_of_int nb) c)) in
  fun i j -> let i = int_of_z i and j = int_of_z j in
    if 0 <= i && i < np && 0 <= j && j < nb then a.(i).(j) else Z0

let bits_of_psel (q : psel) k =
  let b v i = if v then 1 lsl (k + i) else 0 in
  b q.s_time 0 lor b q.s_pos 1 lor b q.s_dir 2 lor b q.s_vol 3 lor b q.s_energy 4
let bits_of_selection (s : selection) =
  let b v i = if v then 1 lsl i else 0 in
  bits_of_psel s.s_pre 0 lor bits_of_psel s.s_post 5 lor b s.s_event 10 lor b s.s_parent 11
  lor b s.s_nsteps 12 lor b s.s_action 13 lor b s.s_steplen 14 lor b s.s_particle 15 lor b s.s_edep 16

(* "params" mode: the StepParams constructor (coq/C17/Multi.v, step_params_build)
   argv: params nvol nif { selbits nonzero ndet (vol det)* }* *)
let params_mode (a : string array) =
  let nvol = int_of_string a.(2) in
  let nif = int_of_string a.(3) in
  let pos = ref 4 in
  let next () = let x = int_of_string a.(!pos) in incr pos; x in
  let fs = List.init nif (fun _ ->
      let sel = next () in
      let nz = next () in
      let nd = next () in
      let det = List.init nd (fun _ -> let v = next () in let d = next () in (z_of_int v, z_of_int d)) in
      { f_sel = selection_of_bits sel; f_det = det; f_nonzero = (nz = 1) }) in
  match step_params_build (nat_of_int nvol) fs with
  | Inl ErrNoData -> print_endline "MERROR nodata"
  | Inl ErrDuplicateVolume -> print_endline "MERROR dup"
  | Inl ErrMixedDetectors -> print_endline "MERROR mixed"
  | Inr p ->
    Printf.printf "MPARAMS %d %d %d%s\n" (bits_of_selection p.p_sel) (if p.p_nonzero then 1 else 0)
      (List.length p.p_detector)
      (String.concat "" (List.map (fun d -> " " ^ pr_idopt d) p.p_detector))

let () =
  if Array.length Sys.argv > 1 && Sys.argv.(1) = "params" then (params_mode Sys.argv; exit 0)

let () =
  (* argv: selbits nonzero ncalo np nactions stepdiag_nbins  ndetmap d0 d1 ... [nstreams mult off] *)
  let a = Sys.argv in
  let selbits = int_of_string a.(1) in
  let nonzero = a.(2) = "1" in
  let ncalo = int_of_string a.(3) in
  let np = int_of_string a.(4) in
  let nact = int_of_string a.(5) in
  let nbins = int_of_string a.(6) in
  let ndet = int_of_string a.(7) in
  let detmap = List.init ndet (fun i ->
      let d = int_of_string a.(8 + i) in if d < 0 then None else Some (z_of_int d)) in
  let p = { p_sel = selection_of_bits selbits; p_detector = detmap; p_nonzero = nonzero } in
  (* stream schedule: the process_steps / diagnostic calls of iteration [it] go to
     stream (it * mult + off) mod nstreams *)
  let nstreams, smult, soff =
    if Array.length a >= 8 + ndet + 3
    then int_of_string a.(8 + ndet), int_of_string a.(9 + ndet), int_of_string a.(10 + ndet)
    else 1, 0, 0 in
  let stream_of it = nat_of_int ((it * smult + soff) mod nstreams) in
  let calo_calls = ref [] and post_calls = ref [] in
  let rows = ref [] in
  let started = ref false in
  let pres = ref [] and posts = ref [] in
  let cur = ref (-1) in
  let all_posts = ref [] in
  let prev_out = ref det_output0 in      (* (iteration number, ground-truth posts), newest first *)
  let calo = ref (tally0 fzero) in
  let act = ref counts0 and act_skip = ref counts0 and sdg = ref counts0 in
  let flush_iter () =
    if !cur >= 0 then begin
      let pre_l = List.rev !pres and post_l = List.rev !posts in
      if not !started then begin
        rows := List.map (fun _ -> row0 fzero) post_l; started := true end;
      let rows' = collector_step is_zero p pre_l post_l !rows in
      rows := rows';
      print_view "MODEL" !cur p rows';
      List.iter (print_spec !cur p) (expected fzero is_zero p pre_l post_l);
      if has_det p then begin
        (* one output object reused across all iterations (coq/C17/Copy.v) *)
        let o = copy_steps_into fzero !prev_out p rows' in
        prev_out := o;
        print_detout !cur p o;
        print_string ("MHITS " ^ string_of_int !cur);
        List.iter (fun (dd, tt) -> print_string (" " ^ pr_idopt dd ^ " " ^ pr_idopt tt)) (scored_hits o);
        print_char '\n';
        if ncalo > 0 then calo := freeze_tally ncalo (calo_accum fadd rows' !calo)
      end;
      act := freeze_counts np nact (action_step false post_l !act);
      act_skip := freeze_counts np nact (action_step true post_l !act_skip);
      if nbins > 0 then sdg := freeze_counts np nbins (stepdiag_accum (z_of_int nbins) post_l !sdg);
      all_posts := (!cur, post_l) :: !all_posts;
      if has_det p && ncalo > 0 then calo_calls := (stream_of !cur, rows') :: !calo_calls;
      post_calls := (stream_of !cur, post_l) :: !post_calls;
      pres := []; posts := []
    end in
  (try
    while true do
      let line = input_line stdin in
      if String.length line > 3 then begin
        match line.[1], line.[0] with
        | 'R', 'P' ->   (* PRE *)
          let t = Array.of_list (split line) in
          pres := parse_pre t :: !pres
        | 'O', 'P' ->   (* POST *)
          let t = Array.of_list (split line) in
          posts := parse_post t :: !posts
        | 'T', 'I' ->   (* ITER k *)
          flush_iter ();
          cur := int_of_string (List.nth (split line) 1)
        | _ -> ()
      end
    done
  with End_of_file -> ());
  flush_iter ();
  (* ---- stepping-loop step counter (coq/C17/Loop.v, core_slot).  The per-slot
     inputs (initialised at start / killed / secondary takes the slot at end) are
     inferred from the ground truth; the model then predicts, for every occupied
     slot of every iteration, (killed, track, event, particle, num_steps). *)
  let iters = Array.of_list (List.rev !all_posts) in
  if Array.length iters > 0 then begin
    let nslots = List.length (snd iters.(0)) in
    let sigma = Array.make nslots None in
    let nsec = ref 0 and ninit = ref 0 in
    let key_of b = ((b.b_event, b.b_track), b.b_particle) in
    Array.iteri (fun t (itno, post_l) ->
        let next = if t + 1 < Array.length iters then Some (Array.of_list (snd iters.(t + 1))) else None in
        List.iteri (fun s b ->
            let active = b.b_status <> Inactive in
            let init = if sigma.(s) = None && active then Some (key_of b) else None in
            let kill = (b.b_status = Killed) in
            let sec =
              if not kill then None else
                match next with
                | Some nx when s < Array.length nx ->
                  let b' = nx.(s) in
                  if b'.b_status <> Inactive && b'.b_parent = b.b_track && b'.b_event = b.b_event
                  then Some (key_of b') else None
                | _ -> None in
            if sec <> None then incr nsec;
            if init <> None then incr ninit;
            let (st', orec) = core_slot sigma.(s) ((init, kill), sec) in
            sigma.(s) <- st';
            (match orec with
             | None -> ()
             | Some ((((ev, tr), pa), n), k) ->
               Printf.printf "MLOOP %d %d %d %s %s %s %s\n" itno s (if k then 1 else 0)
                 (pr_z tr) (pr_z ev) (pr_z pa) (pr_z n)))
          post_l)
      iters;
    Printf.printf "MLOOPEND %d %d %d\n"
      (Array.fold_left (fun a st -> if st = None then a else a + 1) 0 sigma) !ninit !nsec
  end;
  if ncalo > 0 then
    print_endline ("MCALO " ^ string_of_int ncalo ^ " "
                   ^ String.concat " " (List.map string_of_f (tally_list (nat_of_int ncalo) !calo)));
  let pr_counts tag n2 c =
    print_endline (tag ^ " " ^ string_of_int np ^ " " ^ string_of_int n2 ^ " "
                   ^ String.concat " " (List.concat_map (List.map pr_z)
                                          (counts_table (nat_of_int np) (nat_of_int n2) c))) in
  (* merged over the streams (coq/C17/Multi.v: calo_total, counts_total) *)
  if ncalo > 0 then
    print_endline ("MCALOTOTAL " ^ string_of_int ncalo ^ " "
                   ^ String.concat " " (List.map string_of_f
                                          (tally_list (nat_of_int ncalo)
                                             (calo_total fzero fadd (nat_of_int nstreams) (List.rev !calo_calls)))));
  pr_counts "MACTIONTOTAL" nact
    (counts_total (fun ps c -> action_accum ps c) (nat_of_int nstreams) (List.rev !post_calls));
  if nbins > 0 then
    pr_counts "MSTEPDIAGTOTAL" nbins
      (counts_total (fun ps c -> stepdiag_accum (z_of_int nbins) ps c) (nat_of_int nstreams) (List.rev !post_calls));
  pr_counts "MACTION" nact !act;
  pr_counts "MACTIONSKIP" nact !act_skip;
  if nbins > 0 then pr_counts "MSTEPDIAG" nbins !sdg
