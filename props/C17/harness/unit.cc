// C17 unit-level differential: the executors are instantiated HERE from the
// headers (StepGatherExecutor.hh, SimpleCaloExecutor.hh,
// ActionDiagnosticExecutor.hh, StepDiagnosticExecutor.hh), on track states that
// are hand-set through the public views of a real CoreState.
//
// stdin:
//   slots N
//   params <selbits> <nonzero> <ndet> d0 d1 ...   (detector per volume id, -1 = none)
//   ncalo K            number of calorimeter detectors (0 = no calorimeter)
//   nact A             number of ActionDiagnostic bins (actions)
//   stepdiag B         number of StepDiagnostic bins (0 = off)
//   streams N M O      the tallies live in StreamStores with N streams; the
//                      calls of iteration `it` use stream (it*M+O) % N
//   iter               start an iteration; then any number of
//   pre  <slot> <status> <time> x y z dx dy dz <particle> <energy>
//   post <slot> <status> <track> <event> <parent> <nsteps> <action> <steplen>
//        <time> x y z dx dy dz <particle> <energy> <edep> <exit>
//   (doubles as 16-digit hex bit patterns; slots not listed are inactive;
//    exit=1: move the track to the next boundary and cross it)
// stdout: the same dump format as loop.cc with a single callback 0.
#include <map>
#include <memory>

#include "corecel/data/CollectionBuilder.hh"
#include "corecel/data/Ref.hh"
#include "corecel/data/StreamStore.hh"
#include "celeritas/geo/GeoParams.hh"
#include "celeritas/global/TrackExecutor.hh"
#include "celeritas/phys/ParticleParams.hh"
#include "celeritas/user/ParticleTallyData.hh"
#include "celeritas/user/SimpleCaloData.hh"
#include "celeritas/user/detail/ActionDiagnosticExecutor.hh"
#include "celeritas/user/detail/SimpleCaloExecutor.hh"
#include "celeritas/user/detail/StepDiagnosticExecutor.hh"
#include "celeritas/user/detail/StepGatherExecutor.hh"

#include "celeritas/MockTestBase.hh"
#include "celeritas/SimpleTestBase.hh"

#include <fstream>

#include "dump.hh"

namespace
{
class SimpleProblem : public test::SimpleTestBase
{
  public:
    void TestBody() override {}
    using GlobalTestBase::core;
};
class MockProblem : public test::MockTestBase
{
  public:
    void TestBody() override {}
    using GlobalTestBase::core;
};

struct SlotSpec
{
    bool given{false};
    int status{0};
    long long track{-1}, event{-1}, parent{-1}, action{-1}, particle{0};
    unsigned nsteps{0};
    double steplen{0}, time{0}, energy{0}, edep{0};
    Real3 pos{0, 0, 0}, dir{1, 0, 0};
    bool exit{false};
};

template<class I>
I mkid(long long v)
{
    return v < 0 ? I{} : I{static_cast<typename I::size_type>(v)};
}

void set_slot(CoreTrackView const& track, SlotSpec const& s, bool post)
{
    auto sim = track.make_sim_view();
    if (!s.given || s.status == 0)
    {
        sim.status(TrackStatus::inactive);
        return;
    }
    SimTrackView::Initializer_t init;
    init.track_id = mkid<TrackId>(s.track);
    init.parent_id = mkid<TrackId>(s.parent);
    init.event_id = mkid<EventId>(s.event);
    init.time = s.time;
    sim = init;
    for (unsigned i = 0; i < s.nsteps; ++i)
        sim.increment_num_steps();
    sim.step_length(s.steplen);
    sim.post_step_action(mkid<ActionId>(s.action));
    sim.status(static_cast<TrackStatus>(s.status));

    auto geo = track.make_geo_view();
    geo = GeoTrackInitializer{s.pos, s.dir};
    if (post && s.exit && !geo.is_outside())
    {
        geo.find_next_step();
        geo.move_to_boundary();
        geo.cross_boundary();
    }
    auto par = track.make_particle_view();
    ParticleTrackView::Initializer_t pinit;
    pinit.particle_id = mkid<ParticleId>(s.particle);
    pinit.energy = units::MevEnergy{s.energy};
    par = pinit;
    auto pstep = track.make_physics_step_view();
    pstep.reset_energy_deposition();
    if (post && s.edep != 0)
        pstep.deposit_energy(units::MevEnergy{s.edep});
}

template<class Problem>
int run(std::istream& in)
{
    Problem problem;
    auto core = problem.core();
    auto const& pref = *core->template ptr<MemSpace::native>();

    size_type slots = 0;
    unsigned selbits = 0;
    int nonzero = 0;
    std::vector<long long> detmap;
    size_type ncalo = 0, nact = 1, stepdiag = 0;

    std::unique_ptr<CoreState<MemSpace::host>> state;
    HostVal<StepParamsData> sp_val;
    HostCRef<StepParamsData> sp_ref;
    HostVal<StepStateData> ss_val;
    HostRef<StepStateData> ss_ref;
    // per-stream states + merge at output, as in SimpleCalo / ActionDiagnostic /
    // StepDiagnostic (store_.state<host>(stream_id, size); accumulate_over_streams)
    StreamStore<SimpleCaloParamsData, SimpleCaloStateData> calo_store;
    StreamStore<ParticleTallyParamsData, ParticleTallyStateData> ad_store, sd_store;
    HostCRef<ParticleTallyParamsData> ad_params, sd_params;
    size_type np = core->particle()->size();
    unsigned nstreams = 1, smult = 0, soff = 0;

    std::vector<SlotSpec> pre, post;
    DetectorStepOutput reused_out;
    bool in_iter = false;
    bool built = false;
    g_iter = -1;

    auto build = [&] {
        state = std::make_unique<CoreState<MemSpace::host>>(
            *core, StreamId{0}, slots);
        sp_val.selection = selection_from_bits(selbits);
        if (!detmap.empty())
        {
            std::vector<DetectorId> d;
            for (auto v : detmap)
                d.push_back(mkid<DetectorId>(v));
            CollectionBuilder{&sp_val.detector}.insert_back(d.begin(), d.end());
            sp_val.nonzero_energy_deposition = nonzero != 0;
        }
        sp_ref = sp_val;
        resize(&ss_val, sp_ref, StreamId{0}, slots);
        ss_ref = ss_val;
        if (ncalo)
        {
            HostVal<SimpleCaloParamsData> cp;
            cp.num_detectors = ncalo;
            calo_store = {std::move(cp), nstreams};
        }
        {
            HostVal<ParticleTallyParamsData> hp;
            hp.num_bins = nact;
            hp.num_particles = np;
            ad_store = {std::move(hp), nstreams};
            ad_params = ad_store.params<MemSpace::host>();
        }
        if (stepdiag)
        {
            HostVal<ParticleTallyParamsData> hp;
            hp.num_bins = stepdiag;
            hp.num_particles = np;
            sd_store = {std::move(hp), nstreams};
            sd_params = sd_store.params<MemSpace::host>();
        }
        out << "NVOL " << core->geometry()->volumes().size() << '\n';
        built = true;
    };

    auto flush = [&] {
        if (!in_iter)
            return;
        auto const& sref = *state->ptr();
        out << "ITER " << g_iter << '\n';
        // --- pre-step point
        for (auto i : range(slots))
        {
            CoreTrackView track(pref, sref, TrackSlotId{i});
            set_slot(track, pre[i], false);
        }
        for (auto i : range(slots))
            dump_track(false, i, CoreTrackView(pref, sref, TrackSlotId{i}));
        {
            celeritas::detail::StepGatherExecutor<StepPoint::pre> exec{sp_ref,
                                                                       ss_ref};
            for (auto i : range(slots))
                exec(CoreTrackView(pref, sref, TrackSlotId{i}));
        }
        // --- post-step point
        for (auto i : range(slots))
        {
            CoreTrackView track(pref, sref, TrackSlotId{i});
            set_slot(track, post[i], true);
        }
        for (auto i : range(slots))
            dump_track(true, i, CoreTrackView(pref, sref, TrackSlotId{i}));
        {
            celeritas::detail::StepGatherExecutor<StepPoint::post> exec{sp_ref,
                                                                        ss_ref};
            for (auto i : range(slots))
                exec(CoreTrackView(pref, sref, TrackSlotId{i}));
        }
        StreamId const sid{(static_cast<unsigned>(g_iter) * smult + soff)
                           % nstreams};
        // --- callbacks
        StepInterface::HostStepState cb{ss_ref, StreamId{0}};
        dump_view(0, cb);
        if (!detmap.empty())
        {
            // `reused_out` lives across all iterations of the configuration
            copy_steps(&reused_out, ss_ref);
            dump_detout(0, reused_out);
            score_hits(0, reused_out);
            if (ncalo)
            {
                celeritas::detail::SimpleCaloExecutor exec{
                    ss_ref, calo_store.state<MemSpace::host>(sid, slots)};
                for (auto i : range(slots))
                    exec(ThreadId{i});
            }
        }
        // --- diagnostics
        {
            auto exec = make_active_track_executor(
                core->template ptr<MemSpace::native>(),
                state->ptr(),
                celeritas::detail::ActionDiagnosticExecutor{
                    ad_params,
                    ad_store.state<MemSpace::host>(sid, nact * np)});
            for (auto i : range(slots))
                exec(ThreadId{i});
        }
        if (stepdiag)
        {
            auto exec = make_active_track_executor(
                core->template ptr<MemSpace::native>(),
                state->ptr(),
                celeritas::detail::StepDiagnosticExecutor{
                    sd_params,
                    sd_store.state<MemSpace::host>(sid, stepdiag * np)});
            for (auto i : range(slots))
                exec(ThreadId{i});
        }
        in_iter = false;
    };

    std::string line;
    while (std::getline(in, line))
    {
        std::istringstream is(line);
        std::string key;
        if (!(is >> key))
            continue;
        if (key == "slots")
            is >> slots;
        else if (key == "params")
        {
            int n;
            is >> selbits >> nonzero >> n;
            detmap.resize(n);
            for (auto& d : detmap)
                is >> d;
        }
        else if (key == "ncalo")
            is >> ncalo;
        else if (key == "nact")
            is >> nact;
        else if (key == "stepdiag")
            is >> stepdiag;
        else if (key == "streams")
            is >> nstreams >> smult >> soff;
        else if (key == "iter")
        {
            if (!built)
                build();
            flush();
            ++g_iter;
            in_iter = true;
            pre.assign(slots, SlotSpec{});
            post.assign(slots, SlotSpec{});
        }
        else if (key == "pre" || key == "post")
        {
            bool is_post = key == "post";
            size_type slot;
            is >> slot;
            SlotSpec s;
            s.given = true;
            auto rd = [&is] {
                std::string t;
                is >> t;
                return from_bits(t);
            };
            is >> s.status;
            if (is_post)
            {
                is >> s.track >> s.event >> s.parent >> s.nsteps >> s.action;
                s.steplen = rd();
            }
            s.time = rd();
            for (auto& x : s.pos)
                x = rd();
            for (auto& x : s.dir)
                x = rd();
            is >> s.particle;
            s.energy = rd();
            if (is_post)
            {
                s.edep = rd();
                is >> s.exit;
            }
            else
            {
                // ids are needed to initialise the sim view at the pre point too
                s.track = 0;
                s.event = 0;
            }
            (is_post ? post : pre).at(slot) = s;
        }
        else
        {
            std::cerr << "bad key " << key << "\n";
            return 2;
        }
    }
    flush();
    out << "DONE " << g_iter + 1 << " 0\n";
    if (ncalo)
    {
        // SimpleCalo::calc_total_energy_deposition
        std::vector<real_type> tot(ncalo, real_type{0});
        accumulate_over_streams(
            calo_store, [](auto& st) { return st.energy_deposition; }, &tot);
        out << "CALO 0 " << ncalo;
        for (auto x : tot)
            out << ' ' << bits(x);
        out << '\n';
    }
    auto dump_counts = [&](char const* name, auto& store, size_type nb) {
        // ActionDiagnostic::calc_actions / StepDiagnostic::calc_steps
        std::vector<size_type> counts(nb * np, 0);
        accumulate_over_streams(
            store, [](auto& st) { return st.counts; }, &counts);
        out << name << ' ' << np << ' ' << nb;
        for (auto c : counts)
            out << ' ' << c;
        out << '\n';
    };
    dump_counts("ACTIONDIAG", ad_store, nact);
    if (stepdiag)
        dump_counts("STEPDIAG", sd_store, stepdiag);
    return 0;
}
}  // namespace

int main(int argc, char** argv)
{
    // argv[1] (optional): file to write the dump to instead of stdout, so that
    // log messages on stderr can never be interleaved with it
    std::ofstream outfile;
    // stdin holds one or more configurations, each introduced by a line
    // "=== <problem>"; the output of each is introduced by "=== CONFIG <k>"
    std::ios::sync_with_stdio(false);
    std::streambuf* old_buf = nullptr;
    if (argc > 1)
    {
        outfile.open(argv[1]);
        old_buf = std::cout.rdbuf(outfile.rdbuf());
    }
    std::vector<std::pair<std::string, std::string>> configs;
    std::string line;
    while (std::getline(std::cin, line))
    {
        if (line.rfind("=== ", 0) == 0)
            configs.push_back({line.substr(4), std::string{}});
        else if (!configs.empty())
            configs.back().second += line + "\n";
    }
    int k = 0;
    for (auto const& pc : configs)
    {
        std::cout << "=== CONFIG " << k++ << "\n";
        std::istringstream is(pc.second);
        try
        {
            int rc = 2;
            if (pc.first == "simple")
                rc = run<SimpleProblem>(is);
            else if (pc.first == "mock")
                rc = run<MockProblem>(is);
            if (rc != 0)
                std::cout << "\nEXCEPTION bad configuration rc=" << rc << "\n";
        }
        catch (std::exception const& e)
        {
            std::string msg = e.what();
            for (auto& c : msg)
                if (c == '\n')
                    c = ' ';
            std::cout << "\nEXCEPTION " << msg << "\n";
        }
    }
    std::cout.flush();
    if (old_buf)
    {
        // outfile is destroyed before the static destructors run
        std::cout.rdbuf(old_buf);
    }
    return 0;
}
