// C17 correspondence harness: real stepping loops with several StepInterfaces
// registered at once and two independent observer actions (user_pre /
// user_post) that read the track state through the public views.
//
// stdin: configuration (see read_config); stdout: dump (see props/C17/run.py).
// All doubles are printed as 16-digit hex bit patterns (they are only copied).
#include <cstdint>
#include <cstring>
#include <iostream>
#include <map>
#include <memory>
#include <sstream>
#include <string>
#include <vector>

#include "corecel/cont/Range.hh"
#include "corecel/cont/Span.hh"
#include "corecel/io/Label.hh"
#include "corecel/sys/ActionRegistry.hh"
#include "celeritas/geo/GeoParams.hh"
#include "celeritas/global/ActionInterface.hh"
#include "celeritas/global/CoreParams.hh"
#include "celeritas/global/CoreState.hh"
#include "celeritas/global/CoreTrackView.hh"
#include "celeritas/global/Stepper.hh"
#include "celeritas/phys/ParticleParams.hh"
#include "celeritas/phys/Primary.hh"
#include "celeritas/user/ActionDiagnostic.hh"
#include "celeritas/user/DetectorSteps.hh"
#include "celeritas/user/SimpleCalo.hh"
#include "celeritas/user/StepCollector.hh"
#include "celeritas/user/StepDiagnostic.hh"
#include "celeritas/user/StepInterface.hh"
#include "celeritas/user/detail/StepParams.hh"
#include "corecel/data/AuxParamsRegistry.hh"

#include "celeritas/MockTestBase.hh"
#include "celeritas/SimpleTestBase.hh"

#include <fstream>

#include "dump.hh"

namespace
{
//---------------------------------------------------------------------------//
// A user callback with a configurable selection and filter
class Recorder final : public StepInterface
{
  public:
    Recorder(int index,
             StepSelection sel,
             MapVolumeDetector det,
             bool nonzero,
             bool copy)
        : index_(index)
        , sel_(sel)
        , det_(std::move(det))
        , nonzero_(nonzero)
        , copy_(copy)
    {
    }
    Filters filters() const final
    {
        Filters f;
        f.detectors = det_;
        f.nonzero_energy_deposition = nonzero_;
        return f;
    }
    StepSelection selection() const final { return sel_; }
    void process_steps(HostStepState state) final
    {
        dump_view(index_, state);
        if (copy_)
        {
            // the output object is a member: reused across all iterations
            copy_steps(&steps_, state.steps);
            dump_detout(index_, steps_);
            score_hits(index_, steps_);
        }
    }
    void process_steps(DeviceStepState) final {}

  private:
    int index_;
    StepSelection sel_;
    MapVolumeDetector det_;
    bool nonzero_;
    bool copy_;
    DetectorStepOutput steps_;
};

//---------------------------------------------------------------------------//
// Forwards to a SimpleCalo, but hands it a stream id chosen by a schedule:
// the process_steps call of iteration `it` goes to stream (it*mult+off) % n.
// Exercises SimpleCalo's per-stream store and calc_total_energy_deposition.
class StreamSplitter final : public StepInterface
{
  public:
    StreamSplitter(std::shared_ptr<SimpleCalo> calo, unsigned n, unsigned mult, unsigned off)
        : calo_(std::move(calo)), n_(n), mult_(mult), off_(off)
    {
    }
    Filters filters() const final { return calo_->filters(); }
    StepSelection selection() const final { return calo_->selection(); }
    void process_steps(HostStepState state) final
    {
        unsigned sid = (static_cast<unsigned>(g_iter) * mult_ + off_) % n_;
        calo_->process_steps(HostStepState{state.steps, StreamId{sid}});
    }
    void process_steps(DeviceStepState) final {}

  private:
    std::shared_ptr<SimpleCalo> calo_;
    unsigned n_, mult_, off_;
};

//---------------------------------------------------------------------------//
class SimpleProblem : public test::SimpleTestBase
{
  public:
    void TestBody() override {}
    using GlobalTestBase::core;
};
class MockProblem : public test::MockTestBase
{
  public:
    void TestBody() override {}
    using GlobalTestBase::core;
};

struct Batch
{
    int at_iter{0};
    std::vector<Primary> primaries;
};

template<class Problem>
int run(std::istream& in)
{
    Problem problem;
    auto core = problem.core();
    auto& areg = *core->action_reg();

    size_type slots = 4;
    int max_iters = 1000;
    bool obs_first = true;
    bool action_diag = false;
    size_type step_diag = 0;
    std::vector<std::shared_ptr<StepInterface>> ifaces;
    std::vector<std::pair<int, std::shared_ptr<SimpleCalo>>> calos;
    std::vector<Batch> batches;
    unsigned nstreams = 1, smult = 0, soff = 0;

    std::string line;
    while (std::getline(in, line))
    {
        std::istringstream is(line);
        std::string key;
        if (!(is >> key))
            continue;
        if (key == "slots")
            is >> slots;
        else if (key == "maxiters")
            is >> max_iters;
        else if (key == "obsfirst")
            is >> obs_first;
        else if (key == "actiondiag")
            is >> action_diag;
        else if (key == "stepdiag")
            is >> step_diag;
        else if (key == "streams")
            is >> nstreams >> smult >> soff;
        else if (key == "iface")
        {
            // iface <selbits> <nonzero> <copy> <ndet> vol det ...
            unsigned selbits;
            int nz, copy, ndet;
            is >> selbits >> nz >> copy >> ndet;
            StepInterface::MapVolumeDetector det;
            for (int i = 0; i < ndet; ++i)
            {
                unsigned v, d;
                is >> v >> d;
                det[VolumeId{v}] = DetectorId{d};
            }
            ifaces.push_back(std::make_shared<Recorder>(
                static_cast<int>(ifaces.size()),
                selection_from_bits(selbits),
                std::move(det),
                nz != 0,
                copy != 0));
        }
        else if (key == "calo")
        {
            // calo <nlabels> label...
            int n;
            is >> n;
            std::vector<Label> labels;
            for (int i = 0; i < n; ++i)
            {
                std::string s;
                is >> s;
                labels.emplace_back(s);
            }
            auto calo = std::make_shared<SimpleCalo>(
                std::move(labels), *core->geometry(), nstreams);
            calos.push_back({static_cast<int>(ifaces.size()), calo});
            if (nstreams > 1)
                ifaces.push_back(std::make_shared<StreamSplitter>(
                    calo, nstreams, smult, soff));
            else
                ifaces.push_back(calo);
        }
        else if (key == "batch")
        {
            // batch <at_iter> <n>; then n lines: event particle E x y z dx dy dz t
            Batch b;
            int n;
            is >> b.at_iter >> n;
            for (int i = 0; i < n; ++i)
            {
                std::getline(in, line);
                std::istringstream ps(line);
                unsigned ev, pid;
                std::string t[8];
                ps >> ev >> pid;
                for (auto& s : t)
                    ps >> s;
                Primary p;
                p.event_id = EventId{ev};
                p.particle_id = ParticleId{pid};
                p.energy = units::MevEnergy{from_bits(t[0])};
                p.position = {from_bits(t[1]), from_bits(t[2]), from_bits(t[3])};
                p.direction
                    = {from_bits(t[4]), from_bits(t[5]), from_bits(t[6])};
                p.time = from_bits(t[7]);
                b.primaries.push_back(p);
            }
            batches.push_back(std::move(b));
        }
        else
        {
            std::cerr << "bad config key " << key << "\n";
            return 2;
        }
    }

    // Register observers and the collector (order of registration is part of
    // the configuration: the gather actions must not depend on it)
    auto add_observers = [&] {
        areg.insert(std::make_shared<Observer>(
            areg.next_id(), StepActionOrder::user_pre, "verif-obs-pre", false));
        areg.insert(std::make_shared<Observer>(
            areg.next_id(), StepActionOrder::user_post, "verif-obs-post", true));
    };
    if (obs_first)
        add_observers();
    std::shared_ptr<ActionDiagnostic> adiag;
    std::shared_ptr<StepDiagnostic> sdiag;
    if (action_diag)
        adiag = ActionDiagnostic::make_and_insert(*core);
    if (step_diag)
        sdiag = StepDiagnostic::make_and_insert(*core, step_diag);
    auto collector = StepCollector::make_and_insert(*core, ifaces);
    if (!obs_first)
        add_observers();

    // Combined parameters as seen by the collector
    {
        auto const& sel = collector->selection();
        unsigned b = 0, k = 0;
        auto put = [&](bool v) { b |= (v ? 1u : 0u) << k++; };
        for (auto sp : {StepPoint::pre, StepPoint::post})
        {
            auto const& p = sel.points[sp];
            put(p.time);
            put(p.pos);
            put(p.dir);
            put(p.volume_id);
            put(p.energy);
        }
        put(sel.event_id);
        put(sel.parent_id);
        put(sel.track_step_count);
        put(sel.action_id);
        put(sel.step_length);
        put(sel.particle);
        put(sel.energy_deposition);
        out << "COMBINED " << b << '\n';
        out << "NVOL " << core->geometry()->volumes().size() << '\n';
        // the combined StepParamsData (detector per volume, non-zero filter)
        auto const& areg_aux = *core->aux_reg();
        auto sp = std::dynamic_pointer_cast<celeritas::detail::StepParams const>(
            areg_aux.at(areg_aux.find("detector-step")));
        if (sp)
        {
            auto const& href = sp->host_ref();
            out << "PARAMS " << (href.nonzero_energy_deposition ? 1 : 0) << ' '
                << href.detector.size();
            for (auto v : range(VolumeId{href.detector.size()}))
                out << ' ' << idv(href.detector[v]);
            out << ' ' << (sp->has_detectors() ? 1 : 0) << '\n';
        }
    }

    StepperInput inp;
    inp.params = core;
    inp.stream_id = StreamId{0};
    inp.num_track_slots = slots;
    Stepper<MemSpace::host> step(inp);

    out << "ACTIONS " << areg.num_actions();
    for (auto i : range(ActionId{areg.num_actions()}))
        out << ' ' << areg.id_to_label(i);
    out << '\n';

    std::size_t next_batch = 0;
    StepperResult count{};
    bool running = false;
    for (g_iter = 0; g_iter < max_iters; ++g_iter)
    {
        bool inject = next_batch < batches.size()
                      && (!running || g_iter >= batches[next_batch].at_iter);
        if (!running && !inject)
            break;
        out << "ITER " << g_iter << '\n';
        if (inject)
        {
            count = step(make_span(batches[next_batch].primaries));
            ++next_batch;
        }
        else
        {
            count = step();
        }
        out << "COUNT " << g_iter << ' ' << count.generated << ' '
            << count.queued << ' ' << count.active << ' ' << count.alive
            << '\n';
        running = static_cast<bool>(count);
    }
    out << "DONE " << g_iter << ' ' << (running ? 1 : 0) << '\n';

    for (auto const& kv : calos)
    {
        auto tot = kv.second->calc_total_energy_deposition();
        out << "CALO " << kv.first << ' ' << tot.size();
        for (auto x : tot)
            out << ' ' << bits(x);
        out << '\n';
    }
    auto dump_counts = [](char const* name, auto const& vv) {
        out << name << ' ' << vv.size() << ' '
            << (vv.empty() ? 0 : vv.front().size());
        for (auto const& v : vv)
            for (auto c : v)
                out << ' ' << c;
        out << '\n';
    };
    if (adiag)
        dump_counts("ACTIONDIAG", adiag->calc_actions());
    if (sdiag)
        dump_counts("STEPDIAG", sdiag->calc_steps());
    return 0;
}
}  // namespace

int main(int argc, char** argv)
{
    // argv[1] (optional): file to write the dump to instead of stdout, so that
    // log messages on stderr can never be interleaved with it
    std::ofstream outfile;
    // stdin holds one or more configurations, each introduced by a line
    // "=== <problem>"; the output of each is introduced by "=== CONFIG <k>"
    std::ios::sync_with_stdio(false);
    std::streambuf* old_buf = nullptr;
    if (argc > 1)
    {
        outfile.open(argv[1]);
        old_buf = std::cout.rdbuf(outfile.rdbuf());
    }
    std::vector<std::pair<std::string, std::string>> configs;
    std::string line;
    while (std::getline(std::cin, line))
    {
        if (line.rfind("=== ", 0) == 0)
            configs.push_back({line.substr(4), std::string{}});
        else if (!configs.empty())
            configs.back().second += line + "\n";
    }
    int k = 0;
    for (auto const& pc : configs)
    {
        std::cout << "=== CONFIG " << k++ << "\n";
        std::istringstream is(pc.second);
        try
        {
            int rc = 2;
            if (pc.first == "simple")
                rc = run<SimpleProblem>(is);
            else if (pc.first == "mock")
                rc = run<MockProblem>(is);
            if (rc != 0)
                std::cout << "\nEXCEPTION bad configuration rc=" << rc << "\n";
        }
        catch (std::exception const& e)
        {
            std::string msg = e.what();
            for (auto& c : msg)
                if (c == '\n')
                    c = ' ';
            std::cout << "\nEXCEPTION " << msg << "\n";
        }
    }
    std::cout.flush();
    if (old_buf)
    {
        // outfile is destroyed before the static destructors run
        std::cout.rdbuf(old_buf);
    }
    return 0;
}
