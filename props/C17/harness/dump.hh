// Shared dump helpers for the C17 harnesses (loop.cc, unit.cc).
// All doubles are printed as 16-digit hex bit patterns (they are only copied).
#pragma once
#include <cstdint>
#include <cstring>
#include <iostream>
#include <sstream>
#include <string>
#include <vector>

#include "corecel/cont/Range.hh"
#include "celeritas/global/ActionInterface.hh"
#include "celeritas/global/CoreParams.hh"
#include "celeritas/global/CoreState.hh"
#include "celeritas/global/CoreTrackView.hh"
#include "celeritas/user/DetectorSteps.hh"
#include "celeritas/user/StepData.hh"
#include "celeritas/user/StepInterface.hh"

using namespace celeritas;

namespace
{
//---------------------------------------------------------------------------//
std::string bits(double x)
{
    std::uint64_t u;
    std::memcpy(&u, &x, sizeof(u));
    char buf[32];
    std::snprintf(buf, sizeof(buf), "%016llx", static_cast<unsigned long long>(u));
    return buf;
}
double from_bits(std::string const& s)
{
    std::uint64_t u = std::stoull(s, nullptr, 16);
    double x;
    std::memcpy(&x, &u, sizeof(x));
    return x;
}
template<class I>
long long idv(I id)
{
    return id ? static_cast<long long>(id.unchecked_get()) : -1;
}

std::ostream& out = std::cout;
int g_iter = 0;

//---------------------------------------------------------------------------//
// Dump what the public track views report for one slot (ground truth)
template<class G>
void dump_geo_part(real_type time, G const& geo)
{
    out << ' ' << bits(time);
    for (auto x : geo.pos())
        out << ' ' << bits(x);
    for (auto x : geo.dir())
        out << ' ' << bits(x);
    bool outside = geo.is_outside();
    out << ' ' << (outside ? 1 : 0) << ' '
        << (outside ? -1 : idv(geo.volume_id()));
}

inline void dump_track(bool post, size_type i, CoreTrackView const& track)
{
    auto sim = track.make_sim_view();
    int status = static_cast<int>(sim.status());
    out << (post ? "POST " : "PRE ") << g_iter << ' ' << i << ' ' << status;
    if (sim.status() == TrackStatus::inactive)
    {
        out << '\n';
        return;
    }
    auto geo = track.make_geo_view();
    auto par = track.make_particle_view();
    if (post)
    {
        auto pstep = track.make_physics_step_view();
        out << ' ' << idv(sim.track_id()) << ' ' << idv(sim.event_id()) << ' '
            << idv(sim.parent_id()) << ' ' << sim.num_steps() << ' '
            << idv(sim.post_step_action()) << ' ' << bits(sim.step_length());
        dump_geo_part(sim.time(), geo);
        out << ' ' << idv(par.particle_id()) << ' '
            << bits(par.energy().value()) << ' '
            << bits(pstep.energy_deposition().value());
    }
    else
    {
        dump_geo_part(sim.time(), geo);
        out << ' ' << bits(par.energy().value());
    }
    out << '\n';
}

//---------------------------------------------------------------------------//
// Independent observer action: reads every slot through the public views
class Observer final : public CoreStepActionInterface
{
  public:
    Observer(ActionId id, StepActionOrder order, std::string label, bool post)
        : id_(id), order_(order), label_(std::move(label)), post_(post)
    {
    }
    ActionId action_id() const final { return id_; }
    std::string_view label() const final { return label_; }
    std::string_view description() const final { return "verif observer"; }
    StepActionOrder order() const final { return order_; }

    void step(CoreParams const& params, CoreStateHost& state) const final
    {
        auto const& pref = *params.ptr<MemSpace::native>();
        auto const& sref = *state.ptr();
        for (auto i : range(state.size()))
        {
            CoreTrackView track(pref, sref, TrackSlotId{i});
            dump_track(post_, i, track);
        }
    }
    void step(CoreParams const&, CoreStateDevice&) const final {}

  private:
    ActionId id_;
    StepActionOrder order_;
    std::string label_;
    bool post_;
};

//---------------------------------------------------------------------------//
StepSelection selection_from_bits(unsigned b)
{
    StepSelection s;
    auto get = [&b] {
        bool r = b & 1u;
        b >>= 1;
        return r;
    };
    for (auto sp : {StepPoint::pre, StepPoint::post})
    {
        auto& p = s.points[sp];
        p.time = get();
        p.pos = get();
        p.dir = get();
        p.volume_id = get();
        p.energy = get();
    }
    s.event_id = get();
    s.parent_id = get();
    s.track_step_count = get();
    s.action_id = get();
    s.step_length = get();
    s.particle = get();
    s.energy_deposition = get();
    return s;
}

template<class C, class Fn>
void dump_array(std::string const& prefix, char const* name, C const& c, Fn&& fn)
{
    if (c.empty())
        return;
    out << prefix << ' ' << name;
    for (auto i : range(TrackSlotId{c.size()}))
    {
        out << ' ';
        fn(c[i]);
    }
    out << '\n';
}

template<class V, class Fn>
void dump_vec(std::string const& prefix, char const* name, V const& v, Fn&& fn)
{
    out << prefix << ' ' << name;
    for (auto const& x : v)
    {
        out << ' ';
        fn(x);
    }
    out << '\n';
}

auto pr_id = [](auto id) { out << idv(id); };
auto pr_real = [](double x) { out << bits(x); };
auto pr_en = [](units::MevEnergy e) { out << bits(e.value()); };
auto pr_r3 = [](Real3 const& r) {
    out << bits(r[0]) << ' ' << bits(r[1]) << ' ' << bits(r[2]);
};
auto pr_sz = [](size_type n) { out << n; };

// Dump everything a callback can see
void dump_view(int iface, StepInterface::HostStepState const& state)
{
    auto const& d = state.steps.data;
    std::ostringstream os;
    os << "VIEW " << g_iter << ' ' << iface;
    std::string pre = os.str();
    out << pre << " size " << state.steps.size() << ' '
        << idv(state.stream_id) << '\n';
    dump_array(pre, "track", d.track_id, pr_id);
    dump_array(pre, "det", d.detector, pr_id);
    dump_array(pre, "event", d.event_id, pr_id);
    dump_array(pre, "parent", d.parent_id, pr_id);
    dump_array(pre, "nsteps", d.track_step_count, pr_sz);
    dump_array(pre, "action", d.action_id, pr_id);
    dump_array(pre, "steplen", d.step_length, pr_real);
    dump_array(pre, "particle", d.particle, pr_id);
    dump_array(pre, "edep", d.energy_deposition, pr_en);
    for (auto sp : {StepPoint::pre, StepPoint::post})
    {
        std::string n = (sp == StepPoint::pre ? "pre." : "post.");
        auto const& p = d.points[sp];
        dump_array(pre, (n + "time").c_str(), p.time, pr_real);
        dump_array(pre, (n + "pos").c_str(), p.pos, pr_r3);
        dump_array(pre, (n + "dir").c_str(), p.dir, pr_r3);
        dump_array(pre, (n + "vol").c_str(), p.volume_id, pr_id);
        dump_array(pre, (n + "energy").c_str(), p.energy, pr_en);
    }
}

void dump_detout(int iface, DetectorStepOutput const& o)
{
    std::ostringstream os;
    os << "DETOUT " << g_iter << ' ' << iface;
    std::string pre = os.str();
    dump_vec(pre, "det", o.detector, pr_id);
    dump_vec(pre, "track", o.track_id, pr_id);
    dump_vec(pre, "event", o.event_id, pr_id);
    dump_vec(pre, "parent", o.parent_id, pr_id);
    dump_vec(pre, "nsteps", o.track_step_count, pr_sz);
    dump_vec(pre, "steplen", o.step_length, pr_real);
    dump_vec(pre, "particle", o.particle, pr_id);
    dump_vec(pre, "edep", o.energy_deposition, pr_en);
    for (auto sp : {StepPoint::pre, StepPoint::post})
    {
        std::string n = (sp == StepPoint::pre ? "pre." : "post.");
        auto const& p = o.points[sp];
        dump_vec(pre, (n + "time").c_str(), p.time, pr_real);
        dump_vec(pre, (n + "pos").c_str(), p.pos, pr_r3);
        dump_vec(pre, (n + "dir").c_str(), p.dir, pr_r3);
        dump_vec(pre, (n + "energy").c_str(), p.energy, pr_en);
    }
}

// HitProcessor-style consumer: `copy_steps(&steps_, state); if (steps_) score(steps_)`
// on an output object that is REUSED across iterations; prints what gets scored
void score_hits(int iface, DetectorStepOutput const& o)
{
    if (!o)
        return;
    out << "HITS " << g_iter << ' ' << iface;
    for (auto i : range(o.size()))
    {
        out << ' ' << idv(o.detector[i]) << ' '
            << (i < o.track_id.size() ? idv(o.track_id[i]) : -2);
    }
    out << '\n';
}

}  // namespace
