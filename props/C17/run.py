"""C17 — user scoring receives exactly the steps that happened.

Proofs: coq/Properties_C17.v (model coq/C17/Gather.v).
Tie/search:
  * loop.cc   : real Stepper loops (SimpleTestBase / MockTestBase problems) with
                several StepInterfaces, SimpleCalo, ActionDiagnostic, StepDiagnostic and
                two observer actions (user_pre/user_post) that dump the track state read
                through the public views (ground truth);
  * driver.ml : the extracted Coq model computes from the ground truth what every
                callback must see (all slots), what must be delivered (spec side
                `expected`), the DetectorSteps compaction and the tallies;
  * unit.cc   : StepGatherExecutor / SimpleCaloExecutor / ActionDiagnosticExecutor /
                StepDiagnosticExecutor instantiated by the harness itself on hand-set
                track states (so header mutations are visible without rebuilding the
                library), same comparison.
Everything is compared exactly (floats as bit patterns: they are copies).
"""
import collections
import math
import os
import struct
import time
from concurrent.futures import ThreadPoolExecutor

import vlib

HERE = os.path.dirname(os.path.abspath(__file__))
LIBS = ["testcel_celeritas", "testcel_harness", "testcel_core", "testcel_geocel",
        "celeritas", "orange", "geocel", "corecel"]

MODEL_FILES = ["Gather", "Loop", "Multi", "Copy"]     # executable model (no proofs), extracted by C17/Extract.v

NBITS = 17
ALL = (1 << NBITS) - 1
BIT = {n: i for i, n in enumerate(
    ["pre.time", "pre.pos", "pre.dir", "pre.vol", "pre.energy",
     "post.time", "post.pos", "post.dir", "post.vol", "post.energy",
     "event", "parent", "nsteps", "action", "steplen", "particle", "edep"])}
# order of the fields in a SPEC record (after track, det)
SPEC_FIELDS = ["event", "parent", "nsteps", "action", "steplen", "particle", "edep",
               "pre.time", "pre.pos", "pre.dir", "pre.vol", "pre.energy",
               "post.time", "post.pos", "post.dir", "post.vol", "post.energy"]
CALO_SEL = (1 << BIT["edep"]) | (1 << BIT["pre.vol"])

PROBLEMS = {
    # name: (real volume ids, volume labels by id, particle ids usable as primaries,
    #        number of particle types, half-size of the region primaries start in)
    "simple": dict(vols=[1, 2], labels={1: "inner", 2: "world"}, nvol=3,
                   particles=[0, 0, 0, 1], np=2, r=8.0),
    "mock": dict(vols=[1, 2, 3, 4], labels={1: "inner", 2: "middle", 3: "outer", 4: "world"},
                 nvol=5, particles=[0, 3, 4, 3], np=5, r=7.0),
}


def fbits(x):
    return "%016x" % struct.unpack("<Q", struct.pack("<d", x))[0]


def bits_to_float(s):
    return struct.unpack("<d", struct.pack("<Q", int(s, 16)))[0]


# ---------------------------------------------------------------------------
# configuration generator

def gen_selection(r):
    c = r.random()
    if c < 0.15:
        return ALL
    if c < 0.3:
        return 1 << r.randrange(NBITS)
    if c < 0.45:   # only post-step / only pre-step point data
        half = r.choice([0, 5])
        return r.randrange(1, 32) << half
    s = 0
    p = r.choice([0.2, 0.5, 0.8])
    for i in range(NBITS):
        if r.random() < p:
            s |= 1 << i
    return s or (1 << r.randrange(NBITS))


def gen_config(r, idx, tier):
    prob = "simple" if r.random() < 0.55 else "mock"
    P = PROBLEMS[prob]
    cfg = {"idx": idx, "problem": prob}
    cfg["slots"] = r.choice([1, 2, 3, 4, 5, 8, 16, 33])
    cfg["maxiters"] = r.choice([40, 80, 150]) if tier == "quick" else r.choice([60, 150, 400])
    cfg["obsfirst"] = r.randrange(2)
    cfg["actiondiag"] = 1 if r.random() < 0.7 else 0
    cfg["stepdiag"] = r.choice([0, 1, 2, 5, 20, 20])
    mode = r.choice(["none", "none", "some", "some", "all"])
    cfg["mode"] = mode
    ifaces = []
    if mode == "none":
        for _ in range(r.choice([1, 2, 2, 3, 4])):
            ifaces.append({"kind": "rec", "sel": gen_selection(r), "nonzero": r.randrange(2),
                           "copy": 0, "det": {}})
        # make the delivered stream complete enough for the diagnostics oracles sometimes
        if r.random() < 0.5:
            ifaces[r.randrange(len(ifaces))]["sel"] |= sum(1 << BIT[n] for n in ("event", "particle", "action", "nsteps"))
    else:
        vols = list(P["vols"])
        if mode == "some":
            r.shuffle(vols)
            vols = vols[:r.randrange(1, len(vols))] if len(vols) > 1 else vols
        elif r.random() < 0.3:
            vols = [0] + vols      # the exterior can be listed too (never a pre-step volume)
        n_if = r.randrange(1, min(len(vols), 4) + 1)
        r.shuffle(vols)
        groups = [[] for _ in range(n_if)]
        for i, v in enumerate(vols):
            groups[i if i < n_if else r.randrange(n_if)].append(v)
        use_calo = [g for g in groups if 0 not in g] and r.random() < 0.6
        calo_group = None
        if use_calo:
            cands = [i for i, g in enumerate(groups) if 0 not in g]
            calo_group = r.choice(cands)
        ncalo = len(groups[calo_group]) if calo_group is not None else None
        nz_all = r.random() < 0.5
        for i, g in enumerate(groups):
            if i == calo_group:
                ifaces.append({"kind": "calo", "labels": [P["labels"][v] for v in g], "vols": list(g),
                               "sel": CALO_SEL, "nonzero": 1,
                               "det": {v: k for k, v in enumerate(g)}})
            else:
                nid = ncalo if ncalo is not None else r.choice([1, 2, 5])
                ifaces.append({"kind": "rec", "sel": gen_selection(r),
                               "nonzero": 1 if nz_all else r.randrange(2),
                               "copy": r.randrange(2),
                               "det": {v: r.randrange(nid) for v in g}})
        r.shuffle(ifaces)
    cfg["ifaces"] = ifaces
    # SimpleCalo with several streams: process_steps calls are spread over the streams
    ns = r.choice([1, 1, 2, 3, 4])
    cfg["streams"] = (ns, r.choice([0, 1, 1, 2, 3]), r.randrange(ns))
    # primaries
    batches = []
    nb = r.choice([1, 1, 2, 3])
    ev = 0
    for b in range(nb):
        n = r.choice([1, 2, 3, 5, 8, 12])
        at = 0 if b == 0 else r.choice([1, 3, 10, 10 ** 6])
        prims = []
        for _ in range(n):
            pid = r.choice(P["particles"])
            if prob == "simple":
                e = 10 ** r.uniform(-2.5, 1.0)
            else:
                e = 10 ** r.uniform(-1.0, 1.3)
            pos = [r.uniform(-P["r"], P["r"]) for _ in range(3)]
            if r.random() < 0.3:
                pos = [0.0, 0.0, 0.0]
            while True:
                d = [r.gauss(0, 1) for _ in range(3)]
                nrm = math.sqrt(sum(x * x for x in d))
                if nrm > 1e-3:
                    break
            d = [x / nrm for x in d]
            if r.random() < 0.2:
                d = [1.0, 0.0, 0.0]
            prims.append({"event": ev, "pid": pid, "e": e, "pos": pos, "dir": d,
                          "t": r.choice([0.0, r.uniform(0, 1e-9)])})
            if r.random() < 0.6:
                ev += 1
        ev += 1
        batches.append({"at": at, "prims": prims})
    cfg["batches"] = batches
    return cfg


def corpus_single_slot():
    """stored reproduction of finding 1 (NOTES.md): ActionDiagnostic with ONE track slot"""
    prim = {"event": 0, "pid": 0, "e": 10.0, "pos": [0.0, 0.0, 0.0], "dir": [1.0, 0.0, 0.0], "t": 0.0}
    sel = sum(1 << BIT[n] for n in ("event", "particle", "action", "nsteps", "edep"))
    return {"idx": 0, "problem": "simple", "slots": 1, "maxiters": 30, "obsfirst": 1, "actiondiag": 1,
            "stepdiag": 20, "mode": "none",
            "ifaces": [{"kind": "rec", "sel": sel, "nonzero": 0, "copy": 0, "det": {}}],
            "batches": [{"at": 0, "prims": [dict(prim, event=i) for i in range(4)]}]}


def config_text(cfg):
    L = ["slots %d" % cfg["slots"], "maxiters %d" % cfg["maxiters"], "obsfirst %d" % cfg["obsfirst"],
         "actiondiag %d" % cfg["actiondiag"], "stepdiag %d" % cfg["stepdiag"],
         "streams %d %d %d" % cfg.get("streams", (1, 0, 0))]
    for f in cfg["ifaces"]:
        if f["kind"] == "calo":
            L.append("calo %d %s" % (len(f["labels"]), " ".join(f["labels"])))
        else:
            L.append("iface %d %d %d %d %s" % (f["sel"], f["nonzero"], f["copy"], len(f["det"]),
                                              " ".join("%d %d" % kv for kv in sorted(f["det"].items()))))
    for b in cfg["batches"]:
        L.append("batch %d %d" % (b["at"], len(b["prims"])))
        for p in b["prims"]:
            L.append("%d %d %s %s %s %s" % (p["event"], p["pid"], fbits(p["e"]),
                                            " ".join(fbits(x) for x in p["pos"]),
                                            " ".join(fbits(x) for x in p["dir"]), fbits(p["t"])))
    return "\n".join(L) + "\n"


# ---------------------------------------------------------------------------
# unit-level cases: hand-set track states (harness/unit.cc)

VOL_R = {"mock": {1: (0.1, 0.9), 2: (1.2, 2.8), 3: (3.3, 5.7), 4: (7.0, 60.0)},
         "simple": {1: (0.0, 4.5), 2: (9.0, 300.0)}}


def unit_vec(r):
    while True:
        d = [r.gauss(0, 1) for _ in range(3)]
        n = math.sqrt(sum(x * x for x in d))
        if n > 1e-3:
            return [x / n for x in d]


def pos_in_volume(r, prob, vol):
    lo, hi = VOL_R[prob][vol]
    rad = r.uniform(lo, hi)
    if prob == "simple":
        # boxes: stay on an axis-aligned ray so that the radius decides the volume
        ax = r.randrange(3)
        p = [r.uniform(-0.4, 0.4) * min(rad, 4.0) for _ in range(3)]
        p[ax] = rad * r.choice([-1, 1])
        return p
    return [rad * x for x in unit_vec(r)]


def gen_unit_config(r, idx):
    prob = "mock" if r.random() < 0.7 else "simple"
    P = PROBLEMS[prob]
    cfg = {"idx": idx, "problem": prob, "unit": True}
    cfg["slots"] = r.choice([1, 2, 3, 4, 6])
    mode = r.choice(["none", "some", "some", "all"])
    cfg["mode"] = mode
    det = {}
    if mode != "none":
        vols = list(P["vols"])
        if mode == "some" and len(vols) > 1:
            r.shuffle(vols)
            vols = vols[:r.randrange(1, len(vols))]
        nid = r.choice([1, 2, 3])
        det = {v: r.randrange(nid) for v in vols}
    cfg["ifaces"] = [{"kind": "rec", "sel": gen_selection(r), "nonzero": r.randrange(2),
                      "copy": 1 if det else 0, "det": det}]
    if det and r.random() < 0.7:
        cfg["ifaces"][0]["sel"] |= 1 << BIT["edep"]
        cfg["ncalo"] = max(det.values()) + 1
    else:
        cfg["ncalo"] = 0
    if not det and r.random() < 0.6:
        cfg["ifaces"][0]["sel"] |= (1 << BIT["particle"]) | (1 << BIT["action"])
    cfg["actiondiag"] = 1
    cfg["nact"] = r.choice([3, 6])
    cfg["stepdiag"] = r.choice([0, 2, 4, 9])       # number of bins
    ns = r.choice([1, 1, 2, 3, 5])
    cfg["streams"] = (ns, r.choice([0, 1, 1, 2, 3]), r.randrange(ns))
    iters = []
    consistent = True
    # hit patterns for the reused DetectorStepOutput: sequences of calls with some / all / no
    # in-detector steps (None = unconstrained)
    pattern = None
    if det and r.random() < 0.6:
        pattern = r.choice([["some", "none", "some"], ["all", "none"], ["none", "none"],
                            ["some", "none", "none", "some"], ["all", "none", "all", "none"],
                            ["none", "some", "none"]])
    nondet = [v for v in P["vols"] if v not in det]
    nzf = bool(cfg["ifaces"][0]["nonzero"])
    n_it = len(pattern) if pattern else r.choice([2, 4, 7])
    cfg["pattern"] = pattern
    for k_it in range(n_it):
        pre, post = {}, {}
        pat = pattern[k_it] if pattern else None
        for sl in range(cfg["slots"]):
            c = r.random()
            if pat is None and c < 0.25:
                continue
            if pat == "some" and sl > 0 and c < 0.4:
                continue
            if pat == "none" and not nondet and not nzf:
                continue        # only inactive slots can avoid a hit
            if pat == "none" and c < 0.3:
                continue
            a_on, b_on = True, True
            if pat is None and c > 0.93:
                a_on, b_on = r.choice([(True, False), (False, True)])
                consistent = False
            vol = r.choice(P["vols"])
            force_zero = False
            if pat == "all" or (pat == "some" and sl == 0):
                vol = r.choice(sorted(det))
            elif pat == "none":
                if nondet and (not nzf or r.random() < 0.5):
                    vol = r.choice(nondet)
                else:
                    vol = r.choice(sorted(det))
                    force_zero = True
            pid = r.randrange(P["np"])
            if a_on:
                pre[sl] = {"status": 3 if r.random() < 0.03 else 2, "t": r.uniform(0, 1e-8),
                           "pos": pos_in_volume(r, prob, vol), "dir": unit_vec(r),
                           "pid": pid, "e": 10 ** r.uniform(-3, 2)}
            if b_on:
                st = r.choice([2, 2, 4, 4, 3 if r.random() < 0.2 else 2])
                ex = r.random() < 0.12
                bpos = pos_in_volume(r, prob, r.choice(P["vols"]))
                bdir = unit_vec(r)
                if ex:     # in the outermost volume heading outwards
                    bpos = pos_in_volume(r, prob, P["vols"][-1])
                    n = math.sqrt(sum(x * x for x in bpos))
                    bdir = [x / n for x in bpos]
                post[sl] = {"status": st, "track": r.randrange(0, 40), "event": r.randrange(0, 5),
                            "parent": r.choice([-1, r.randrange(0, 40)]), "nsteps": r.choice([0, 1, 2, 3, 5, 8, 13]),
                            "action": r.randrange(cfg["nact"]), "steplen": r.choice([0.0, 10 ** r.uniform(-6, 2)]),
                            "t": r.uniform(0, 1e-8), "pos": bpos, "dir": bdir, "pid": pid,
                            "e": r.choice([0.0, 10 ** r.uniform(-3, 2)]),
                            "edep": r.choice([0.0, 0.0, 10 ** r.uniform(-4, 1), 5e-324]), "exit": int(ex)}
                if pat == "none" and force_zero:
                    post[sl]["edep"] = 0.0
                if pat == "all" or (pat == "some" and sl == 0):
                    post[sl]["edep"] = 10 ** r.uniform(-4, 1)
                    post[sl]["status"] = r.choice([2, 4])
                    pre[sl]["status"] = 2
        iters.append((pre, post))
    cfg["iters"] = iters
    cfg["consistent"] = consistent
    return cfg


def unit_text(cfg):
    sel, nz, detmap = combined_params(cfg)
    L = ["slots %d" % cfg["slots"],
         "params %d %d %d %s" % (sel, cfg["ifaces"][0]["nonzero"] if detmap else 0, len(detmap), " ".join(str(x) for x in detmap)),
         "ncalo %d" % cfg["ncalo"], "nact %d" % cfg["nact"], "stepdiag %d" % cfg["stepdiag"],
         "streams %d %d %d" % cfg.get("streams", (1, 0, 0))]
    f3 = lambda v: " ".join(fbits(x) for x in v)
    for pre, post in cfg["iters"]:
        L.append("iter")
        for sl, a in sorted(pre.items()):
            L.append("pre %d %d %s %s %s %d %s" % (sl, a["status"], fbits(a["t"]), f3(a["pos"]), f3(a["dir"]), a["pid"], fbits(a["e"])))
        for sl, b in sorted(post.items()):
            L.append("post %d %d %d %d %d %d %d %s %s %s %s %d %s %s %d" % (
                sl, b["status"], b["track"], b["event"], b["parent"], b["nsteps"], b["action"], fbits(b["steplen"]),
                fbits(b["t"]), f3(b["pos"]), f3(b["dir"]), b["pid"], fbits(b["e"]), fbits(b["edep"]), b["exit"]))
    return "\n".join(L) + "\n"


def combined_params(cfg):
    P = PROBLEMS[cfg["problem"]]
    sel = 0
    det = {}
    nz = True
    for f in cfg["ifaces"]:
        sel |= f["sel"]
        det.update(f["det"])
        nz = nz and bool(f["nonzero"])
    detmap = []
    if det:
        detmap = [det.get(v, -1) for v in range(P["nvol"])]
    return sel, (1 if (det and nz) else 0), detmap


# ---------------------------------------------------------------------------
# dump parsing

class Dump:
    def __init__(self, text):
        self.views = collections.defaultdict(dict)     # (iter, iface) -> {field: [tokens]}
        self.view_calls = collections.Counter()
        self.detout = collections.defaultdict(dict)
        self.hits = {}
        self.pre = collections.defaultdict(list)       # iter -> [tokens per slot]
        self.post = collections.defaultdict(list)
        self.iters = []
        self.final = {}
        self.exception = None
        for line in text.splitlines():
            t = line.split()
            if not t:
                continue
            k = t[0]
            if k == "VIEW":
                key = (int(t[1]), int(t[2]))
                if t[3] == "size":
                    self.view_calls[key] += 1
                    self.views[key]["size"] = t[4:]
                else:
                    self.views[key][t[3]] = t[4:]
            elif k == "DETOUT":
                self.detout[(int(t[1]), int(t[2]))][t[3]] = t[4:]
            elif k == "HITS":
                self.hits[(int(t[1]), int(t[2]))] = t[3:]
            elif k == "PRE":
                self.pre[int(t[1])].append(t[3:])
            elif k == "POST":
                self.post[int(t[1])].append(t[3:])
            elif k == "ITER":
                self.iters.append(int(t[1]))
            elif k in ("COMBINED", "NVOL", "ACTIONS", "DONE", "ACTIONDIAG", "STEPDIAG", "PARAMS"):
                self.final[k] = t[1:]
            elif k == "CALO":
                self.final.setdefault("CALO", {})[int(t[1])] = t[3:]
            elif k == "EXCEPTION":
                self.exception = line


class ModelOut:
    def __init__(self, text):
        self.views = collections.defaultdict(dict)
        self.spec = collections.defaultdict(list)
        self.detout = collections.defaultdict(dict)
        self.final = {}
        self.loop = {}
        self.hits = {}
        for line in text.splitlines():
            t = line.split()
            if not t:
                continue
            k = t[0]
            if k == "MODEL":
                self.views[int(t[1])][t[2]] = t[3:]
            elif k == "SPEC":
                self.spec[int(t[1])].append(t[2:])
            elif k == "MDETOUT":
                self.detout[int(t[1])][t[2]] = t[3:]
            elif k == "MHITS":
                self.hits[int(t[1])] = t[2:]
            elif k in ("MCALO", "MACTION", "MACTIONSKIP", "MSTEPDIAG", "MLOOPEND",
                       "MCALOTOTAL", "MACTIONTOTAL", "MSTEPDIAGTOTAL"):
                self.final[k] = t[1:]
            elif k == "MLOOP":
                self.loop[(int(t[1]), int(t[2]))] = t[3:]


WIDTH3 = ("pre.pos", "pre.dir", "post.pos", "post.dir")


def view_rows(view, n):
    """per-slot dict of the arrays in use"""
    rows = [dict() for _ in range(n)]
    for f, vals in view.items():
        if f == "size":
            continue
        w = 3 if f in WIDTH3 else 1
        for i in range(n):
            rows[i][f] = " ".join(vals[w * i:w * i + w])
    return rows


def delivered_from_view(view, has_det):
    """(slot, SPEC-normalised tokens) of the valid rows of an implementation view"""
    n = int(view["size"][0])
    rows = view_rows(view, n)
    out = []
    for i, r in enumerate(rows):
        if r["track"] == "-1":
            continue
        if has_det and r.get("det", "-1") == "-1":
            continue
        toks = [str(i), r["track"], r["det"] if has_det else "-"]
        for f in SPEC_FIELDS:
            toks += (r[f].split() if f in r else ["-"])
        out.append(toks)
    return out


def compaction_from_view(view):
    """DetectorSteps oracle: entries of slots with a valid detector, in slot order"""
    n = int(view["size"][0])
    det = view["det"]
    keep = [i for i in range(n) if det[i] != "-1"]
    out = {}
    for f, vals in view.items():
        if f == "size" or f in ("pre.vol", "post.vol", "action"):
            continue
        w = 3 if f in WIDTH3 else 1
        out[f] = [x for i in keep for x in vals[w * i:w * i + w]]
    return out


# ---------------------------------------------------------------------------

def check_config(ctx, cfg, out_text, model_text, np_, stats):
    """compare one configuration; returns list of (kind, what, detail)"""
    problems = []
    d = Dump(out_text)
    m = ModelOut(model_text)
    sel, nz, detmap = combined_params(cfg)
    has_det = bool(detmap)
    nif = len(cfg["ifaces"])

    def bad(kind, what, **detail):
        if len(problems) < 3:
            problems.append((kind, what, detail))

    if d.exception:
        bad("loop-exception", d.exception)
        return problems
    unit = bool(cfg.get("unit"))
    if not unit and d.final.get("COMBINED") != [str(sel)]:
        bad("correspondence", "combined selection differs from the union of the interfaces' selections",
            impl=d.final.get("COMBINED"), expected=sel)
    if not unit:
        exp = [str(nz), str(len(detmap))] + [str(x) for x in detmap] + ["1" if detmap else "0"]
        if d.final.get("PARAMS") != exp:
            bad("correspondence", "combined StepParamsData (non-zero flag, detector per volume, has_detectors) differs "
                "from the union of the interfaces' filters", impl=d.final.get("PARAMS"), expected=exp)
    nstreams, smult, soff = cfg.get("streams", (1, 0, 0))
    # hypothesis of the theorems: a slot is occupied at pre iff at post
    inconsistent = set()
    for it in d.iters:
        pre, post = d.pre[it], d.post[it]
        if len(pre) != cfg["slots"] or len(post) != cfg["slots"]:
            bad("ground-truth", "observer did not see every slot once", iter=it, npre=len(pre), npost=len(post))
            continue
        for s in range(cfg["slots"]):
            if (pre[s][0] == "0") != (post[s][0] == "0"):
                inconsistent.add(it)
                if not unit:
                    bad("assumption", "slot occupancy differs between user_pre and user_post", iter=it, slot=s)
    for it in d.iters:
        spec = m.spec.get(it, [])
        mview = m.views.get(it, {})
        for k in range(nif):
            key = (it, k)
            if cfg["ifaces"][k]["kind"] == "calo":
                continue        # SimpleCalo: observed through its tally below
            if d.view_calls[key] != 1:
                bad("property", "callback %d called %d times in iteration %d" % (k, d.view_calls[key], it))
                continue
            v = d.views[key]
            stats["views"] += 1
            if v["size"] != [str(cfg["slots"]), "0"]:
                bad("correspondence", "view size/stream", iter=it, iface=k, size=v["size"])
            # property oracle: delivered records == spec computed from the ground truth
            deliv = delivered_from_view(v, has_det)
            ctx.case((cfg["idx"], it, k), nontrivial=bool(deliv))
            stats["records"] += len(deliv)
            if deliv != spec and it not in inconsistent:
                diff = next(((a, b) for a, b in zip(deliv, spec) if a != b), None)
                bad("property", "delivered steps differ from the steps that happened (iteration %d, callback %d)" % (it, k),
                    n_delivered=len(deliv), n_expected=len(spec), first_difference=diff,
                    ground_truth_pre=d.pre[it], ground_truth_post=d.post[it])
            # tie: every slot of every array in use equals the model (stale rows included)
            vv = {f: x for f, x in v.items() if f != "size"}
            if vv != mview:
                f = next((f for f in set(vv) | set(mview) if vv.get(f) != mview.get(f)), None)
                bad("correspondence", "callback view differs from the model's state (iteration %d, callback %d, field %s)" % (it, k, f),
                    impl=vv.get(f), model=mview.get(f))
            # DetectorSteps
            if cfg["ifaces"][k].get("copy"):
                o = d.detout.get(key, {})
                stats["detout"] += 1
                # HitProcessor-style consumer on the REUSED output: what it scores must be the
                # delivered-steps spec of this iteration, each step exactly once (C17_scored_hits_exact)
                hits = d.hits.get(key, [])
                stats["hits-iterations"] += 1
                stats["hits-scored"] += len(hits) // 2
                prev_hits = d.hits.get((it - 1, k), []) if (it - 1) in d.iters else []
                if prev_hits and not spec:
                    stats["hits-then-none"] += 1
                exp_hits = [x for rec in spec for x in (rec[2], rec[1])]
                if it not in inconsistent and hits != exp_hits:
                    bad("property", "hits scored from the reused DetectorStepOutput are not the steps that happened "
                        "(iteration %d, callback %d): each in-detector step must be scored exactly once" % (it, k),
                        scored=hits, steps_that_happened=exp_hits, scored_in_previous_iteration=prev_hits)
                if hits != m.hits.get(it, []):
                    bad("correspondence", "scored hits differ from the model (iteration %d)" % it,
                        impl=hits, model=m.hits.get(it, []))
                oracle = compaction_from_view(v)
                for f, vals in o.items():
                    exp = oracle.get(f, [])
                    if vals != exp:
                        bad("property", "copy_steps output is not the order-preserving compaction (field %s, iteration %d)" % (f, it),
                            impl=vals, expected=exp)
                if o != m.detout.get(it, {}):
                    f = next((f for f in o if o[f] != m.detout.get(it, {}).get(f)), None)
                    bad("correspondence", "copy_steps output differs from the model (field %s, iteration %d)" % (f, it),
                        impl=o.get(f), model=m.detout.get(it, {}).get(f))
    # ---- tallies
    rec0 = next((j for j, g in enumerate(cfg["ifaces"]) if g["kind"] == "rec"), None)
    calos = [(k, len(f["labels"])) for k, f in enumerate(cfg["ifaces"]) if f["kind"] == "calo"]
    if unit and cfg["ncalo"]:
        calos = [(0, cfg["ncalo"])]
    for k, n in calos:
        impl = d.final.get("CALO", {}).get(k)
        stats["calo"] += 1
        if nstreams > 1:
            stats["calo-multistream"] += 1
        mkey = "MCALOTOTAL" if nstreams > 1 else "MCALO"
        if impl != m.final.get(mkey, [None])[1:]:
            bad("correspondence", "calorimeter tally%s differs from the model" % (" merged over the streams" if nstreams > 1 else ""),
                impl=impl, model=m.final.get(mkey), streams=cfg.get("streams"))
        if nstreams == 1 and m.final.get("MCALOTOTAL") != m.final.get("MCALO"):
            bad("correspondence", "model: calo_total with one stream differs from calo_run",
                total=m.final.get("MCALOTOTAL"), run=m.final.get("MCALO"))
        # fold of the delivered stream (as seen by a recorder registered next to the calorimeter)
        recs = [j for j, g in enumerate(cfg["ifaces"]) if g["kind"] == "rec"]
        if not recs:
            continue
        stats["calo-stream"] += 1
        # C17_calo_total_exact: in-order sum over the streams of the in-order per-stream sums
        per = [[0.0] * n for _ in range(nstreams)]
        for it in d.iters:
            v = d.views[(it, recs[0])]
            sid = (it * smult + soff) % nstreams
            for s in range(cfg["slots"]):
                dd = int(v["det"][s])
                if dd >= 0:
                    per[sid][dd] += bits_to_float(v["edep"][s])
        tot = [0.0] * n
        for sid in range(nstreams):
            for dd in range(n):
                tot[dd] += per[sid][dd]
        fold = [fbits(x) for x in tot]
        if impl != fold:
            bad("property", "calorimeter tally is not the sum of the delivered deposits", impl=impl, fold=fold)
    if cfg["actiondiag"]:
        impl = d.final.get("ACTIONDIAG")
        stats["actiondiag"] += 1
        skipped = False
        akey = "MACTIONTOTAL" if unit else "MACTION"
        if unit and nstreams > 1:
            stats["diag-multistream"] += 1
        if unit and nstreams == 1 and m.final.get("MACTIONTOTAL") != m.final.get("MACTION"):
            bad("correspondence", "model: counts_total with one stream differs from the single-stream run")
        if impl != m.final.get(akey):
            if not unit and cfg["slots"] == 1 and impl == m.final.get("MACTIONSKIP"):
                # the model with the host single-slot shortcut applying to the
                # diagnostic (C17_action_counts_single_slot_refuted) matches: finding
                skipped = True
                problems.append(("property",
                                 "ActionDiagnostic counts nothing with a single track slot (ActionSequence "
                                 "skip_post_action skips it): counts are not the counts of delivered steps",
                                 {"impl": impl, "counts_of_steps": m.final.get("MACTION"),
                                  "signature": "action-diagnostic-skipped-single-slot-host"}))
            else:
                bad("correspondence", "ActionDiagnostic counts differ from the model", impl=impl, model=m.final.get(akey),
                    streams=cfg.get("streams"))
        # oracle on the delivered stream when it is complete
        need = (1 << BIT["particle"]) | (1 << BIT["action"])
        if not skipped and not has_det and (sel & need) == need and impl and not inconsistent:
            nb = int(impl[1])
            cnt = [0] * (int(impl[0]) * nb)
            errored = False
            for it in d.iters:
                v = d.views[(it, rec0)]
                errored = errored or any(p[0] == "3" for p in d.post[it])
                for s in range(cfg["slots"]):
                    if v["track"][s] != "-1":
                        cnt[int(v["particle"][s]) * nb + int(v["action"][s])] += 1
            stats["actiondiag-stream"] += 1
            if not errored and [str(c) for c in cnt] != impl[2:]:
                bad("property", "ActionDiagnostic counts are not the counts of delivered steps",
                    impl=impl, counted=cnt)
    if cfg["stepdiag"]:
        impl = d.final.get("STEPDIAG")
        stats["stepdiag"] += 1
        skey = "MSTEPDIAGTOTAL" if unit else "MSTEPDIAG"
        if impl != m.final.get(skey):
            bad("correspondence", "StepDiagnostic counts differ from the model", impl=impl, model=m.final.get(skey),
                streams=cfg.get("streams"))
        need = (1 << BIT["particle"]) | (1 << BIT["event"])
        if not unit and not has_det and (sel & need) == need and impl:
            # steps per track = number of records delivered for (event, track)
            nb = int(impl[1])
            nsteps = collections.Counter()
            cnt = [0] * (int(impl[0]) * nb)
            for it in d.iters:
                v = d.views[(it, rec0)]
                for s in range(cfg["slots"]):
                    if v["track"][s] != "-1":
                        tk = (v["event"][s], v["track"][s])
                        nsteps[tk] += 1
                        if d.post[it][s][0] == "4":
                            cnt[int(v["particle"][s]) * nb + min(nsteps[tk], nb - 1)] += 1
            stats["stepdiag-stream"] += 1
            if [str(c) for c in cnt] != impl[2:]:
                bad("property", "StepDiagnostic bins are not the numbers of delivered steps per track",
                    impl=impl, counted=cnt)
    if not unit:
        check_loop(cfg, d, m, sel, has_det, rec0, bad, stats)
    return problems


def check_loop(cfg, d, m, sel, has_det, rec0, bad, stats):
    """stepping-loop step counter: coq/C17/Loop.v vs the ground truth, and the statement of
    C17_step_diagnostic_equals_delivered / C17_num_steps_equals_delivered on the delivered stream"""
    errored = any(p[0] == "3" for it in d.iters for p in d.post[it])
    if errored:
        stats["loop-skipped-errored"] += 1       # errored tracks are outside the loop model
        return
    stats["loop"] += 1
    # tie: (killed, track, event, particle, num_steps) of every occupied slot
    inits = collections.Counter()
    prev = {}
    for it in d.iters:
        post = d.post[it]
        for s in range(min(cfg["slots"], len(post))):
            pz = post[s]
            mod = m.loop.get((it, s))
            if pz[0] == "0":
                obs = None
            else:
                obs = ["1" if pz[0] == "4" else "0", pz[1], pz[2], pz[16], pz[4]]
                stats["loop-records"] += 1
            if obs != mod:
                bad("correspondence", "step counter / slot life cycle differs from the loop model "
                    "(iteration %d, slot %d)" % (it, s), impl=obs, model=mod)
            # hypothesis of the theorems: ids handed to initialisations are unique
            key = None if obs is None else (pz[2], pz[1], pz[16])
            if key is not None and prev.get(s) != key:
                inits[key] += 1
            prev[s] = None if (obs is None or pz[0] == "4") else key
    mend = m.final.get("MLOOPEND") or ["-1", "0", "0"]
    stats["loop-inits-at-start"] += int(mend[1])
    stats["loop-secondaries-in-place"] += int(mend[2])
    dup = [k for k, c in inits.items() if c > 1]
    if dup:
        bad("assumption", "an (event, track, particle) id was initialised twice", ids=dup[:3])
        return
    need = (1 << BIT["particle"]) | (1 << BIT["event"])
    if has_det or (sel & need) != need or rec0 is None:
        return
    # delivered records per (event, track, particle)
    per = collections.Counter()
    has_n = bool(sel & (1 << BIT["nsteps"]))
    for it in d.iters:
        v = d.views[(it, rec0)]
        for s in range(cfg["slots"]):
            if v["track"][s] != "-1":
                k = (v["event"][s], v["track"][s], v["particle"][s])
                per[k] += 1
                # C17_track_step_count_is_running_count
                if has_n:
                    stats["loop-running-count"] += 1
                    if int(v["nsteps"][s]) != per[k]:
                        bad("property", "delivered track_step_count is not the number of records delivered so far for the track",
                            track=k, iteration=it, slot=s, delivered_step_count=v["nsteps"][s], records_so_far=per[k])
    # C17_num_steps_equals_delivered: the counter at death = number of delivered records
    killed = set()
    for it in d.iters:
        for pz in d.post[it]:
            if pz[0] == "4":
                stats["loop-deaths"] += 1
                k = (pz[2], pz[1], pz[16])
                killed.add(k)
                if int(pz[4]) != per[k]:
                    bad("property", "num_steps at a track's death is not the number of step records delivered for it",
                        track=k, num_steps=pz[4], delivered=per[k])
    # C17_step_diagnostic_equals_delivered (complete runs)
    impl = d.final.get("STEPDIAG")
    done = d.final.get("DONE")
    complete = bool(done) and done[1] == "0" and mend[0] == "0"
    if cfg["stepdiag"] and impl and complete:
        nb = int(impl[1])
        cnt = [0] * (int(impl[0]) * nb)
        for (ev, tr, pa), n in per.items():
            cnt[int(pa) * nb + min(n, nb - 1)] += 1
        stats["stepdiag-hist"] += 1
        if [str(c) for c in cnt] != impl[2:]:
            bad("property", "StepDiagnostic histogram is not the histogram of delivered records per track",
                impl=impl, histogram_of_delivered=cnt)


def run_configs(ctx, loop_exe, model_exe, cfgs):
    """run generated configurations (loop.cc or unit.cc, by cfg["unit"]) + the model; compare"""
    stats = collections.Counter()

    def texts(cfg):
        return unit_text(cfg) if cfg.get("unit") else config_text(cfg)

    def run_chunk(chunk):
        """several configurations in one harness process"""
        inp = "".join("=== %s\n%s" % (cfg["problem"], texts(cfg)) for cfg in chunk)
        ofile = os.path.join(ctx.work, "dump_%s_%d.txt" % (os.path.basename(loop_exe), chunk[0]["idx"]))
        rc, log = ctx.run_harness(loop_exe, [ofile], input=inp, timeout=600,
                                  env={"CELER_LOG_LOCAL": "error"})
        try:
            with open(ofile) as f:
                out = f.read()
            os.remove(ofile)
        except OSError:
            out = ""
        if rc != 0:
            out += "\n[harness rc=%d] %s" % (rc, log[-1500:])
        parts = out.split("=== CONFIG ")
        outs = {}
        for part in parts[1:]:
            head, _, body = part.partition("\n")
            outs[int(head)] = body
        res = []
        for i, cfg in enumerate(chunk):
            o = outs.get(i)
            if o is None or (rc != 0 and i == len(outs) - 1 and "\nDONE " not in o and "EXCEPTION" not in o):
                res.append((cfg, texts(cfg), rc or 1, out[-1500:], 0, ""))
                continue
            res.append(one(cfg, o))
        return res

    def one(cfg, out):
        unit = bool(cfg.get("unit"))
        txt = texts(cfg)
        rc = 0
        sel, nz, detmap = combined_params(cfg)
        P = PROBLEMS[cfg["problem"]]
        if unit:
            nact, ncalo, nbins = cfg["nact"], cfg["ncalo"], cfg["stepdiag"]
        else:
            nact = 0
            for line in out.splitlines():
                if line.startswith("ACTIONS "):
                    nact = int(line.split()[1])
                    break
            ncalo = max([len(f["labels"]) for f in cfg["ifaces"] if f["kind"] == "calo"] + [0])
            nbins = cfg["stepdiag"] + 2 if cfg["stepdiag"] else 0
        args = [str(sel), str(nz), str(ncalo), str(P["np"]), str(nact), str(nbins), str(len(detmap))] + [str(x) for x in detmap]
        args += [str(x) for x in cfg.get("streams", (1, 0, 0))]
        mrc, mout = vlib.sh([model_exe] + args, input=out, timeout=300)
        return cfg, txt, rc, out, mrc, mout

    per = 12 if (cfgs and cfgs[0].get("unit")) else 5
    chunks = [cfgs[i:i + per] for i in range(0, len(cfgs), per)]
    with ThreadPoolExecutor(max_workers=8) as ex:
        results = [r for chunk_res in ex.map(run_chunk, chunks) for r in chunk_res]
    nviol = 0
    seen_sigs = set()
    for cfg, txt, rc, out, mrc, mout in results:
        pre = "unit-" if cfg.get("unit") else ""
        ctx.count(pre + "problem:" + cfg["problem"])
        ctx.count(pre + "detectors:" + cfg["mode"])
        if not pre:
            ctx.count("callbacks:%d" % len(cfg["ifaces"]))
            ctx.count("slots:%d" % cfg["slots"])
        if rc != 0 and "EXCEPTION" not in out:
            raise vlib.BuildError("loop harness failed rc=%d on config %d" % (rc, cfg["idx"]), out[-1500:] + "\n" + txt)
        if mrc != 0:
            raise vlib.BuildError("model driver failed rc=%d on config %d" % (mrc, cfg["idx"]), mout[-1500:] + "\n" + txt)
        probs = check_config(ctx, cfg, out, mout, PROBLEMS[cfg["problem"]]["np"], stats)
        if len(ctx.samples) < 3 and not probs:
            ctx.sample({"config": txt.splitlines()[:8], "iterations": out.count("\nITER "),
                        "delivered_records_first_callback": sum(1 for l in mout.splitlines() if l.startswith("SPEC "))})
        for kind, what, detail in probs:
            sig = detail.pop("signature", None) if isinstance(detail, dict) else None
            if sig is None:
                nviol += 1
                if nviol > 4:
                    continue
            elif sig in seen_sigs:
                continue
            seen_sigs.add(sig)
            ctx.violation(kind, what, {"problem": cfg["problem"], "config": txt, "detail": detail,
                                       "replay": "(echo '=== %s'; cat config) | CELER_DISABLE_PARALLEL=1 OMP_NUM_THREADS=1 %s" % (cfg["problem"], loop_exe)},
                          signature=sig, no_input=(kind == "correspondence"))
    return stats


# ---------------------------------------------------------------------------
# StepParams constructor: combined parameters / rejected interface lists

def gen_params_case(r, idx):
    prob = r.choice(["simple", "mock"])
    P = PROBLEMS[prob]
    nvol = P["nvol"]
    kind = r.choice(["valid-det", "valid-det", "valid-none", "mixed", "dup", "nodata", "random", "random"])
    n = r.choice([1, 2, 2, 3, 4, 5])
    ifs = []
    vols = list(range(nvol))
    r.shuffle(vols)
    if kind in ("valid-det", "dup", "mixed", "nodata", "random"):
        k = 0
        for i in range(n):
            m = r.randrange(1, 3)
            mine = vols[k:k + m]
            k += m
            ifs.append({"sel": gen_selection(r), "nonzero": 1 if r.random() < 0.7 else 0,
                        "det": {v: r.randrange(4) for v in mine}})
        ifs = [f for f in ifs if f["det"]] or [{"sel": gen_selection(r), "nonzero": 1, "det": {vols[0]: 0}}]
    else:
        for i in range(n):
            ifs.append({"sel": gen_selection(r), "nonzero": r.randrange(2), "det": {}})
    def some():
        return r.randrange(len(ifs))
    if kind == "mixed" or (kind == "random" and r.random() < 0.4):
        ifs.insert(r.randrange(len(ifs) + 1), {"sel": gen_selection(r), "nonzero": r.randrange(2), "det": {}})
    if kind == "dup" or (kind == "random" and r.random() < 0.4):
        src = ifs[some()]
        if src["det"]:
            v = r.choice(sorted(src["det"]))
            tgt = {"sel": gen_selection(r), "nonzero": 1, "det": {v: r.randrange(4)}}
            if r.random() < 0.5 and len(ifs) > 1:
                ifs[some()]["det"].setdefault(v, r.randrange(4)) if r.random() < 0.5 else ifs.append(tgt)
            else:
                ifs.insert(r.randrange(len(ifs) + 1), tgt)
    if kind == "nodata" or (kind == "random" and r.random() < 0.3):
        ifs[some()]["sel"] = 0
    return {"idx": idx, "problem": prob, "kind": kind, "ifaces": ifs}


def params_case_text(case):
    L = ["slots 2", "maxiters 0"]
    for f in case["ifaces"]:
        L.append("iface %d %d 0 %d %s" % (f["sel"], f["nonzero"], len(f["det"]),
                                         " ".join("%d %d" % kv for kv in sorted(f["det"].items()))))
    return "\n".join(L) + "\n"


def run_params_cases(ctx, loop_exe, model_exe, cases, stats):
    inp = "".join("=== %s\n%s" % (c["problem"], params_case_text(c)) for c in cases)
    ofile = os.path.join(ctx.work, "dump_params.txt")
    rc, log = ctx.run_harness(loop_exe, [ofile], input=inp, timeout=600, env={"CELER_LOG_LOCAL": "error"})
    try:
        with open(ofile) as f:
            out = f.read()
        os.remove(ofile)
    except OSError:
        out = ""
    if rc != 0:
        raise vlib.BuildError("loop harness failed rc=%d on the StepParams cases" % rc, log[-1500:])
    parts = out.split("=== CONFIG ")[1:]
    if len(parts) != len(cases):
        raise vlib.BuildError("loop harness: %d outputs for %d StepParams cases" % (len(parts), len(cases)), out[-1500:])
    nviol = 0
    for case, part in zip(cases, parts):
        P = PROBLEMS[case["problem"]]
        impl = None
        for line in part.splitlines():
            t = line.split()
            if not t:
                continue
            if t[0] == "EXCEPTION":
                if "collect any data" in line:
                    impl = ["MERROR", "nodata"]
                elif "multiple step interfaces map single volume" in line:
                    impl = ["MERROR", "dup"]
                elif "inconsistent step callbacks" in line:
                    impl = ["MERROR", "mixed"]
                else:
                    impl = ["EXCEPTION", line]
            elif t[0] == "COMBINED":
                comb = t[1]
            elif t[0] == "PARAMS" and impl is None:
                # PARAMS nz ndet d... hasdet  ->  MPARAMS sel nz ndet d...
                impl = ["MPARAMS", comb] + t[1:-1]
                hasdet = t[-1]
        args = ["params", str(P["nvol"]), str(len(case["ifaces"]))]
        for f in case["ifaces"]:
            args += [str(f["sel"]), str(f["nonzero"]), str(len(f["det"]))]
            for v, dd in sorted(f["det"].items()):
                args += [str(v), str(dd)]
        mrc, mout = vlib.sh([model_exe] + args, timeout=60)
        if mrc != 0:
            raise vlib.BuildError("model driver (params mode) failed rc=%d" % mrc, mout[-1500:])
        model = mout.split()
        stats["params"] += 1
        ctx.count("stepparams:" + case["kind"])
        ctx.count("stepparams-result:" + (model[1] if model[0] == "MERROR" else "accepted"))
        ctx.case(("params", case["idx"]), nontrivial=True)
        if model[0] == "MERROR":
            stats["params-rejected"] += 1
        problems = []
        if impl != model:
            problems.append(("correspondence", "StepParams constructor differs from the model (step_params_build)",
                             {"impl": impl, "model": model}))
        # property oracle (C17_step_params_*): mixed lists are rejected; accepted lists give the union
        dets = [bool(f["det"]) for f in case["ifaces"]]
        mixed = any(dets) and not all(dets)
        if mixed and impl and impl[0] == "MPARAMS":
            problems.append(("property", "a mix of step interfaces with and without detectors was accepted", {"impl": impl}))
        if impl and impl[0] == "MPARAMS":
            sel, nz, detmap = combined_params({"problem": case["problem"], "ifaces": case["ifaces"]})
            exp = ["MPARAMS", str(sel), str(nz), str(len(detmap))] + [str(x) for x in detmap]
            if impl != exp:
                problems.append(("property", "combined step parameters are not the union of the interfaces' "
                                 "selections / detector maps (AND of the non-zero flags)", {"impl": impl, "expected": exp}))
            if hasdet != ("1" if detmap else "0"):
                problems.append(("property", "has_detectors() inconsistent with the interfaces", {"impl": hasdet}))
        for kind, what, detail in problems:
            nviol += 1
            if nviol > 3:
                break
            ctx.violation(kind, what, {"problem": case["problem"], "config": params_case_text(case), "detail": detail,
                                       "replay": "(echo '=== %s'; cat config) | CELER_DISABLE_PARALLEL=1 %s" % (case["problem"], loop_exe)},
                          no_input=(kind == "correspondence"))


def run(ctx):
    ctx.trusted += [
        "hand-written model coq/C17/Gather.v, tied by the loop and unit differentials (props/C17/run.py)",
        "OCaml extraction (ExtrOcamlBasic) + glue in props/C17/ocaml/driver.ml (parsing, int<->Z, float bit patterns)",
        "observer actions in props/C17/harness/loop.cc read the state through the same public track views as the code under test",
        "host, single stream, OMP_NUM_THREADS=1 (slot order of atomic_add accumulation)",
    ]
    ctx.assumptions += [
        "a slot is occupied at user_pre iff it is occupied at user_post of the same iteration (checked on every run)",
        "detector ids handed to SimpleCalo are < its number of detectors (CELER_ASSERT in SimpleCaloExecutor; generator respects it)",
    ]
    proofs_ok = ctx.coq_prove("Properties_C17.v")
    def model_fresh():
        for name in MODEL_FILES:
            v = os.path.join(vlib.COQDIR, "C17", name + ".v")
            vo = v + "o"
            if not (os.path.exists(vo) and os.path.getmtime(vo) >= os.path.getmtime(v)):
                return False
        return True

    if not (proofs_ok and model_fresh()):
        # the model file has no proofs: it must still build when a proof is broken
        for attempt in range(2):
            ok, _ = ctx.coq_build(["C17/%s.vo" % n for n in MODEL_FILES])
            if ok or model_fresh():
                break
            time.sleep(3)
        if not (ok or model_fresh()):
            ctx.violation("model-broken", "the executable model no longer compiles",
                          getattr(ctx, "broken_proof", {}), no_input=True)
            return
    model_exe = ctx.ocaml_extract("C17/Extract.v", os.path.join(HERE, "ocaml", "driver.ml"), "c17_model", "gather_model")
    ctx.build_libs(LIBS)
    with ThreadPoolExecutor(max_workers=2) as ex:
        fl = ex.submit(ctx.compile_harness, [os.path.join(HERE, "harness", "loop.cc")], "loop", LIBS, True)
        fu = ex.submit(ctx.compile_harness, [os.path.join(HERE, "harness", "unit.cc")], "unit", LIBS, True)
        loop_exe, unit_exe = fl.result(), fu.result()

    found = len(ctx.violations)
    n_cfg = 70 if ctx.tier == "quick" else 700
    cfgs = [corpus_single_slot()] + [gen_config(ctx.rng, i + 1, ctx.tier) for i in range(n_cfg)]
    # directed configurations (every run, not left to chance): detector maps whose interfaces select NO
    # pre-step point field at all (the detector id is nevertheless derived from the pre-step volume), and
    # ones that select ONLY pre-step point fields
    PRE_MASK = sum(1 << BIT[n] for n in ("pre.time", "pre.pos", "pre.dir", "pre.vol", "pre.energy"))
    POST_MASK = sum(1 << BIT[n] for n in ("post.time", "post.pos", "post.dir", "post.vol", "post.energy"))
    n_directed = 0
    for c in cfgs[1:]:
        if n_directed >= 4:
            break
        ifs = c.get("ifaces", [])
        if c.get("mode") in ("some", "all") and ifs and all(f.get("kind") == "rec" for f in ifs):
            for f in ifs:
                if n_directed % 2 == 0:
                    f["sel"] = (f["sel"] & ~PRE_MASK) or (1 << BIT["edep"])
                else:
                    f["sel"] = (f["sel"] & ~POST_MASK) or (1 << BIT["pre.vol"])
            ctx.count("directed:" + ("no-pre-point-fields" if n_directed % 2 == 0 else "no-post-point-fields"))
            n_directed += 1
    stats = run_configs(ctx, loop_exe, model_exe, cfgs)
    ctx.log("loop configs=%d %s" % (n_cfg, dict(stats)))

    # StepParams constructor: accepted / rejected interface lists
    n_par = 80 if ctx.tier == "quick" else 1500
    pcases = [gen_params_case(ctx.rng, 200000 + i) for i in range(n_par)]
    for i in range(0, len(pcases), 100):
        run_params_cases(ctx, loop_exe, model_exe, pcases[i:i + 100], stats)

    # unit-level differential: executors instantiated by the harness itself
    n_unit = 150 if ctx.tier == "quick" else 2500
    ucfgs = [gen_unit_config(ctx.rng, 100000 + i) for i in range(n_unit)]
    ustats = run_configs(ctx, unit_exe, model_exe, ucfgs)
    ctx.log("unit configs=%d %s" % (n_unit, dict(ustats)))
    stats.update(ustats)

    if not proofs_ok and len(ctx.violations) == found:
        ctx.violation("proof-broken", "Properties_C17.v no longer checks", ctx.broken_proof, no_input=True)
    elif not proofs_ok:
        ctx.notes.append("Properties_C17.v no longer checks: %s" % str(ctx.broken_proof)[:800])
    ctx.coverage["rule"] = ("case = one callback's view of one stepping-loop iteration of one generated configuration "
                            "(problem, slots, primaries, callbacks with selections / detector maps / filters); "
                            "non-trivial = at least one step record was delivered in it")
    ctx.coverage["traces_validated_against_impl"] = int(stats["views"])
    ctx.coverage["delivered_records_checked"] = int(stats["records"])
    ctx.coverage["tallies_checked"] = {k: int(stats[k]) for k in
                                       ("calo", "calo-stream", "actiondiag", "actiondiag-stream", "stepdiag", "stepdiag-stream", "detout",
                                        "hits-iterations", "hits-scored", "hits-then-none", "calo-multistream", "diag-multistream", "params", "params-rejected", "loop", "loop-records", "loop-deaths", "loop-running-count", "loop-inits-at-start", "loop-secondaries-in-place", "stepdiag-hist", "loop-skipped-errored")}
