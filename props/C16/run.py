"""C16 — running out of secondary or initializer storage never corrupts or
loses physics.

Proofs: coq/Properties_C16.v (coq/C16/Allocator.v, plus the C02 machine for
capacity_checked_first / reset_then_run_ok).
Tie: (a) allocator op-sequence differential against the real header-only
StackAllocator, (b) starved-capacity op lists through the real track-init
actions (shared C02 harness), (c) starved-capacity runs of the real Stepper
replayed op by op through the C02 model (RuntimeError exactly where the model
says Err, then reset and a clean event)."""
import importlib.util, os, sys, time
import vlib

HERE = os.path.dirname(os.path.abspath(__file__))
C02 = os.path.join(os.path.dirname(HERE), "C02")
sys.path.insert(0, C02)
import gen, oracle, build_util   # noqa: E402  (props/C02)
_spec = importlib.util.spec_from_file_location("c02run", os.path.join(C02, "run.py"))
c02run = importlib.util.module_from_spec(_spec)
_spec.loader.exec_module(c02run)

LIBS = c02run.LIBS
HENV = c02run.HENV


# ------------------------------------------------------------------ allocator

def gen_alloc_case(r):
    cap = r.choice([0, 1, 1, 2, 3, 4, 5, 6, 7, 8])
    nops = r.randint(1, 12)
    ops = []
    size = 0
    for _ in range(nops):
        if r.random() < 0.15:
            ops.append(("C",)); size = 0
            continue
        rem = cap - size
        n = r.choice([1, 1, 2, 3, max(rem, 1), rem + 1, max(rem - 1, 1), cap + 1, max(cap, 1)])
        tag = r.choice([0, r.randint(1, 9)])
        ops.append(("A", n, tag))
        if n <= rem:
            size += n
    return cap, ops


def alloc_oracle(cap, ops, dumps):
    """property on the implementation's outputs only"""
    store = [0] * cap
    size = 0
    live = []
    for k, (op, d) in enumerate(zip(ops, dumps)):
        res, sz, st = d[0], d[1], d[2:]
        if len(st) != cap:
            return k, "storage length changed"
        if op[0] == "C":
            if sz != 0 or st != store:
                return k, "clear() changed the storage or left size != 0"
            size, live = 0, []
            continue
        n, tag = op[1], op[2]
        if res == 0:
            if size + n <= cap:
                return k, "allocation of %d failed although %d + %d <= capacity %d" % (n, size, n, cap)
            if sz != size or st != store:
                return k, "failed allocation modified size (%d -> %d) or storage" % (size, sz)
            continue
        start = res - 1
        if start + n > cap:
            return k, "allocated range [%d,%d) exceeds capacity %d" % (start, start + n, cap)
        for (s2, n2) in live:
            if not (start + n <= s2 or s2 + n2 <= start):
                return k, "allocated range [%d,%d) overlaps live range [%d,%d)" % (start, start + n, s2, s2 + n2)
        live.append((start, n))
        size += n
        if sz != size:
            return k, "size %d after allocations totalling %d" % (sz, size)
        exp = store[:start] + [tag] * n + store[start + n:]
        if st != exp:
            return k, "items outside the allocated range changed / items not default-initialised"
        store = exp
    return None


def run_allocator(ctx, ncases):
    exe = ctx.compile_harness([os.path.join(HERE, "harness", "alloc.cc")], "alloc", libs=["corecel"])
    r = ctx.rng
    cases = [gen_alloc_case(r) for _ in range(ncases)]
    # exhaustive small: capacity 0..3, all sequences of <=3 ops over counts 1..cap+1
    import itertools
    for cap in range(0, 4):
        alpha = [("C",)] + [("A", n, 1 + n) for n in range(1, cap + 2)]
        for L in (1, 2, 3):
            for seq in itertools.product(alpha, repeat=L):
                cases.append((cap, list(seq)))
    txt = ""
    for cap, ops in cases:
        txt += "CASE %d %d\n" % (cap, len(ops))
        for o in ops:
            txt += ("C\n" if o[0] == "C" else "A %d %d\n" % (o[1], o[2]))
    def case_text(c):
        cap, ops = c
        return "CASE %d %d\n" % (cap, len(ops)) + "".join("C\n" if o[0] == "C" else "A %d %d\n" % (o[1], o[2]) for o in ops)

    # a crash / abort / sanitizer report of the harness is a violation for the
    # list that was executing; the remaining lists are run in a fresh process
    impl, crash_why = [], {}
    todo = list(range(len(cases)))
    while todo:
        rc, out = ctx.run_harness(exe, input="".join(case_text(cases[i]) for i in todo), timeout=600)
        res, done = gen.parse_harness(out, len(todo))
        why = gen.abnormal(rc, out, done)
        if not why:
            impl += res
            break
        k = next((j for j, i in enumerate(todo) if len(res[j]) != len(cases[i][1])), len(todo) - 1)
        crash_why[todo[k]] = (why, out[-600:])
        impl += res[:k] + [res[k][:max(0, len(cases[todo[k]][1]) - 1)]]
        todo = todo[k + 1:]
    mexe = ctx.ocaml_extract("C16/Extract.v", os.path.join(HERE, "harness", "driver.ml"), "c16model_exe", "c16model")
    mrc, mout = vlib.sh([mexe], input=txt, timeout=600)
    model, mdone = gen.parse_harness(mout, len(cases))
    if mrc != 0 or not mdone:
        raise RuntimeError("extracted allocator model failed: " + mout[-1000:])
    nbad = 0
    for i, ((cap, ops), im, mo) in enumerate(zip(cases, impl, model)):
        ctx.case(("alloc", cap, ops), nontrivial=len(ops) >= 2)
        ctx.count("alloc-capacity:%d" % cap)
        crashed = i in crash_why
        try:
            orc = None if crashed else alloc_oracle(cap, ops, im)
        except Exception as e:
            orc = (0, "uninterpretable output of the real allocator: %r" % e)
        if crashed or orc is not None or im != mo:
            nbad += 1
            if nbad > 3:
                continue
            replay = {"capacity": cap, "ops": ops, "impl": im, "model": mo,
                      "layout": "result(0 null, start+1, 100 cleared) size storage..."}
            if crashed:
                replay["why"], replay["output_tail"] = crash_why[i]
                ctx.violation("crash", "the real StackAllocator crashed / aborted while executing an op list [%s]" % crash_why[i][0], replay)
            elif orc is not None:
                replay["violated_at_op"], replay["violation"] = orc
                ctx.violation("property", "StackAllocator violates C16: " + orc[1], replay)
            else:
                ctx.violation("correspondence", "allocator model and implementation differ", replay, no_input=True)
    return len(cases)


# ------------------------------------------------------------------ starved op lists

def run_starved_oplists(ctx, exe, ncases):
    r = ctx.rng
    cases = []
    while len(cases) < ncases:
        c = gen.gen_case(r, ctx.tier, maxops=36, capmodes=("tiny", "tight", "tiny"))
        cases.append(c)
    results = c02run.evaluate(ctx, exe, cases, "starved")
    nbad = nerrcases = 0
    for rr in results:
        c = rr["case"]
        nerr = sum(1 for d in rr["impl"] if d and d[0] == 1)
        nerrcases += 1 if nerr else 0
        ctx.count("oplist-capacity-errors:%d" % min(nerr, 3))
        ctx.case(("oplist", gen.harness_text(c)), nontrivial=nerr > 0)
        ctx.evaluations += len(c["ops"]) - 1
        if rr["diff"] is not None or rr["oracle"] is not None or rr["crashed"]:
            nbad += 1
            if nbad <= 2:
                c02run.report(ctx, exe, rr, "starved capacity: ")
    return len(cases), nerrcases


# ------------------------------------------------------------------ per-step use of the secondary stack

def gen_stack_case(r):
    n = r.choice([1, 1, 2, 2, 3, 4, 5, 8])
    sf8 = r.choice([0, 1, 2, 3, 4, 6, 8, 8, 12, 16, 24])       # factor sf8/8: capacity floor(n*sf8/8), 0 included
    order = r.choice([0, 0, 1])
    cap = n * sf8 // 8
    nsteps = r.randint(1, 5)
    ops = [("P", [(0, r.choice([0, 0, 1]), 1 if r.random() < 0.08 else 0) for _ in range(n)])]
    tag = 0
    steps = []
    for k in range(nsteps):
        if k and r.random() < 0.5:
            ops.append(("P", [(0, r.choice([0, 1]), 1 if r.random() < 0.1 else 0) for _ in range(r.randint(1, n))]))
        ops.append(("I",))
        reqs = []
        for i in range(n):
            tag += 1
            cnt = r.choice([0, 1, 1, 2, 3, max(cap, 1), cap + 1, max(cap - 1, 1), max(cap // 2, 1)])
            reqs.append((1 if r.random() < 0.3 else 0, min(cnt, 6), tag))
        steps.append(reqs)
        ops.append(("Y", reqs))
        ops.append(("S",))
    return {"n": n, "sf8": sf8, "order": order, "ops": ops, "steps": steps}


def stack_case_text(c):
    out = ["CASE %d 600 %d 1 %d %d" % (c["n"], c["order"], c["sf8"], len(c["ops"]))]
    for op in c["ops"]:
        if op[0] == "P":
            out.append("P %d %s" % (len(op[1]), " ".join("%d %d %d" % p for p in op[1])))
        elif op[0] == "Y":
            out.append("Y " + " ".join("%d %d %d" % q for q in op[1]))
        else:
            out.append(op[0])
    return "\n".join(out) + "\n"


def stack_oracle(c, klines, alines):
    """C16 on the implementation's output only: capacity rule; per step the stack is used from 0 again,
    successful spans tile [0, size) in slot order with intact items, a failure happens only when there
    is no room at that moment and leaves nothing behind"""
    n, sf8 = c["n"], c["sf8"]
    if sf8 == 0:
        return None if klines == [0] else "secondary_stack_factor = 0 was accepted"
    cap = n * sf8 // 8
    if klines != [1, cap, 0]:
        return "fresh secondary stack (ok, capacity, size) = %s, expected capacity floor(%d*%d/8) = %d and size 0" % (klines, n, sf8, cap)
    if len(alines) != len(c["steps"]):
        return "missing step dumps"
    for si, (reqs, a) in enumerate(zip(c["steps"], alines)):
        size, acap = a[0], a[1]
        slots = [a[2 + 4 * i:6 + 4 * i] for i in range(n)]
        store = a[2 + 4 * n:]
        if acap != cap or len(store) != cap:
            return "step %d: capacity changed" % si
        cur = 0
        for i, ((dies, cnt, tag), (pre, failed, off, scnt)) in enumerate(zip(reqs, slots)):
            if pre == 0:
                if failed:
                    return "step %d slot %d: an inactive slot interacted" % (si, i)
                continue
            if pre == 3 or cnt == 0:
                if failed or (off, scnt) != (0, 0):
                    return "step %d slot %d: span not empty for a slot that emitted nothing" % (si, i)
                continue
            if failed:
                if cur + cnt <= cap:
                    return "step %d slot %d: allocation of %d failed although %d + %d <= capacity %d (the stack was not cleared at pre-step?)" % (si, i, cnt, cur, cnt, cap)
                if (off, scnt) != (0, 0):
                    return "step %d slot %d: a failed interaction left a secondary span" % (si, i)
                continue
            if (off, scnt) != (cur + 1, cnt):
                return "step %d slot %d: span (%d,%d), expected [%d,%d) (overlap or gap)" % (si, i, off - 1, scnt, cur, cur + cnt)
            if store[cur:cur + cnt] != [tag] * cnt:
                return "step %d slot %d: items of the span were overwritten" % (si, i)
            cur += cnt
        if size != cur or size > cap:
            return "step %d: stack size %d, expected %d <= capacity %d" % (si, size, cur, cap)
    return None


def run_step_stack(ctx, exe, ncases):
    r = ctx.rng
    cases = [gen_stack_case(r) for _ in range(ncases)]
    # capacity rule grid (one trivial step each)
    for n in (1, 2, 3, 5, 7, 8, 9, 16):
        for sf8 in (0, 1, 3, 5, 7, 8, 9, 64):
            cases.append({"n": n, "sf8": sf8, "order": 0, "ops": [("P", [(0, 0, 0)] * n), ("I",), ("Y", [(0, 1, i + 1) for i in range(n)]), ("S",)],
                          "steps": [[(0, 1, i + 1) for i in range(n)]]})
    txt = "".join(stack_case_text(c) for c in cases)
    rc, out = ctx.run_harness(exe, input=txt, env=HENV, timeout=900)
    done = ("DONE %d" % len(cases)) in out
    why = gen.abnormal(rc, out, done)
    K = [None] * len(cases)
    A = [[] for _ in cases]
    for line in out.splitlines():
        w = line.split()
        try:
            if w and w[0] == "K" and int(w[1]) < len(cases):
                K[int(w[1])] = [int(x) for x in w[2:]]
            elif w and w[0] == "A" and int(w[1]) < len(cases):
                A[int(w[1])].append([int(x) for x in w[3:]])
        except ValueError:
            pass
    # model input: kinds from the statuses the real code had when pre-step ran
    mtxt = ""
    for c, a in zip(cases, A):
        n = c["n"]
        steps = c["steps"][:len(a)] if c["sf8"] else []
        mtxt += "STEPS %d %d 8 %d\n" % (n, c["sf8"], len(steps))
        for reqs, al in zip(steps, a):
            pre = [al[2 + 4 * i] for i in range(n)] if len(al) >= 2 + 4 * n else [0] * n
            kinds = [0 if p_ == 0 else (2 if p_ == 3 else 1) for p_ in pre]
            mtxt += "T " + " ".join("%d %d %d" % (kd, q[1], q[2]) for kd, q in zip(kinds, reqs)) + "\n"
    mexe = ctx.ocaml_extract("C16/Extract.v", os.path.join(HERE, "harness", "driver.ml"), "c16model_exe", "c16model")
    mrc, mout = vlib.sh([mexe], input=mtxt, timeout=600)
    model, mdone = gen.parse_harness(mout, len(cases))
    if mrc != 0 or not mdone:
        raise RuntimeError("extracted step-stack model failed: " + mout[-1000:])
    nbad = nfail = 0
    for i, (c, k, a, mo) in enumerate(zip(cases, K, A, model)):
        n = c["n"]
        ctx.case(("stepstack", stack_case_text(c)), nontrivial=len(c["steps"]) >= 2)
        ctx.count("step-stack-capacity:%d" % min(n * c["sf8"] // 8, 9))
        ctx.evaluations += max(0, len(a) - 1)
        nfail += sum(al[3 + 4 * j] for al in a for j in range(n) if len(al) >= 2 + 4 * n)
        try:
            orc = stack_oracle(c, k, a) if k is not None else "no dump of the fresh secondary stack"
        except Exception as e:
            orc = "uninterpretable output of the real code: %r" % e
        if c["sf8"] == 0:
            diff = None if (k == [0] and mo == [[0]]) else 0
        else:
            im = [[al[0], al[1]] + [x for j in range(n) for x in al[3 + 4 * j:6 + 4 * j]] + al[2 + 4 * n:] for al in a]
            diff = c02run.first_diff(im, mo)
            if diff is None and mo and k is not None and (len(k) != 3 or k[1] != mo[0][1]):
                diff = 0
        if orc is None and diff is None:
            continue
        nbad += 1
        if nbad > 3:
            continue
        replay = {"slots": n, "stack_factor_x8": c["sf8"], "track_order": c["order"], "harness_input": stack_case_text(c),
                  "fresh_stack(ok capacity size)": k, "impl_steps": a, "model_steps": mo, "first_differing_step": diff,
                  "layout": "impl: size capacity (prestatus failed offset+1 count)*slots storage-tags; model: the same without prestatus"}
        if why and (k is None or len(a) != len(c["steps"])):
            replay["why"], replay["output_tail"] = why, out[-600:]
            ctx.violation("crash", "the real code crashed / aborted in a starved step [%s]" % why, replay)
        elif orc is not None:
            replay["property_violation"] = orc
            ctx.violation("property", "per-step use of the secondary stack violates C16 on the real code: " + orc, replay)
        else:
            ctx.violation("correspondence", "step-stack model (coq/C16/StepStack.v) and implementation differ", replay, no_input=True)
    return len(cases), nfail


# ------------------------------------------------------------------ starved Stepper runs

def gen_stepper_run(r):
    n = r.choice([1, 2, 3, 4, 4, 8, 8, 16])
    order = r.choice([0, 0, 1])
    sf8 = r.choice([1, 1, 2, 2, 4, 8, 16, 64])       # stack capacity = floor(n * sf8 / 8): from 0 up
    cap = r.choice([1, 2, 3, 4, n, n + 1, 2 * n, 3 * n + 2, 64])
    nev = r.choice([2, 3])
    evs = []
    for e in range(nev):
        last = e == nev - 1
        k = r.choice([1, 2, cap, cap, cap + 1, max(1, cap - 1), n]) if not last else r.choice([1, 1, 2])
        k = max(1, min(k, 24))
        en = r.choice([1.0, 10.0, 10.0, 100.0])
        evs.append((r.randint(0, 10 ** 6), r.choice([6, 25, 60, 120]) if not last else 250, [(0, en)] * k))
    return {"n": n, "cap": cap, "order": order, "sf8": sf8, "events": evs}


def stepper_text(run):
    t = "RUN %d %d %d %d %d\n" % (run["n"], run["cap"], run["order"], run["sf8"], len(run["events"]))
    for uid, maxsteps, ps in run["events"]:
        t += "EV %d %d %d %s\n" % (uid, maxsteps, len(ps), " ".join("%d %r" % p for p in ps))
    return t


def stepper_protocol_ok(optexts):
    """Python transcription of `stepper_protocol false` (coq/C02/Refine.v), the hypothesis of
    C16_reset_refines_fresh, evaluated on the op sequence the REAL Stepper produced"""
    clean = False
    for t in optexts:
        k = t.split()[0] if t.split() else "?"
        if k in ("P", "E"):
            clean = True
        elif k == "R":
            clean = False
        elif k == "Z":
            pass
        elif not clean:
            return False
    return True


def run_stepper(ctx, nruns):
    exe = build_util.compile_with_repo_sources(ctx, [os.path.join(HERE, "harness", "stepper.cc")], "stepper",
                                               build_util.STEPPER_TUS, LIBS)
    r = ctx.rng
    runs = [gen_stepper_run(r) for _ in range(nruns)]
    from concurrent.futures import ThreadPoolExecutor
    import re as _re
    oline = _re.compile(r"^O 0 (\d+) (.*)$")

    def one(run):
        """each configuration in its own child process: a crash of one does not lose the others"""
        rc, out = ctx.run_harness(exe, input=stepper_text(run), env=HENV, timeout=300)
        ot, gl, bad = [], [], False
        dm, done = gen.parse_harness(out, 1)
        for line in out.splitlines():
            m = oline.match(line)
            if m and int(m.group(1)) == len(ot):
                ot.append(m.group(2).strip())
            elif line.startswith("G 0 ") and len(line.split()) == 11:
                gl.append(line.split()[2:])
            elif line.startswith("BADRESULT"):
                bad = True
        return ot, dm[0], gl, bad, gen.abnormal(rc, out, done), out[-600:]

    with ThreadPoolExecutor(max_workers=6) as ex:
        outs = list(ex.map(one, runs))
    optext = [o[0] for o in outs]
    dumps = [o[1] for o in outs]
    glines = [o[2] for o in outs]
    bad_result = set(i for i, o in enumerate(outs) if o[3])
    ncrash = 0
    for i, o in enumerate(outs):
        if o[4]:
            ncrash += 1
            if ncrash <= 3:
                ctx.violation("crash", "the real Stepper crashed / aborted / timed out (not a RuntimeError) in a starved-capacity run [%s]" % o[4],
                              {"run": runs[i], "harness_input": stepper_text(runs[i]),
                               "ops_completed": len(dumps[i]), "last_ops": optext[i][-6:], "output_tail": o[5]})
        # keep only what is consistent for the comparison below
        k = min(len(optext[i]), len(dumps[i]))
        optext[i], dumps[i] = optext[i][:k], dumps[i][:k]
    cases = []
    odd = set()
    for i, ot in enumerate(optext):
        # "?" = an exception escaped from an action other than insert / extend-from-secondaries
        if "?" in ot:
            k = ot.index("?")
            odd.add(i)
            optext[i] = ot[:k]
            dumps[i] = dumps[i][:k]
    for i, (run, ot) in enumerate(zip(runs, optext)):
        ops = []
        for t in ot:
            try:
                ops.append(gen.parse_op_text(t, run["n"]))
            except Exception:       # garbled line (the process was dying): compare what is intact
                break
        optext[i], dumps[i] = ot[:len(ops)], dumps[i][:len(ops)]
        cases.append({"n": run["n"], "cap": run["cap"], "order": run["order"], "nev": 2, "ops": ops})
    model = c02run.model_eval(ctx, "stepper", cases)
    nfail_total = nerr = nbad = 0
    for i, (run, c, im, mo) in enumerate(zip(runs, cases, dumps, model)):
        # Stepper zeroes num_generated at every call: not part of the comparison
        im2 = [[d[0], 0] + d[2:] for d in im]
        mo2 = [[d[0], 0] + d[2:] if len(d) > 1 else d for d in mo]
        diff = c02run.first_diff(im2, mo2)
        c_or = dict(c)
        orc = oracle.check_case(c_or, im2, stepper=True)
        nerr += sum(1 for d in im if d[0] == 1)
        ctx.case(("stepper", stepper_text(run)), nontrivial=len(im) > 6)
        ctx.evaluations += max(0, len(im) - 1)
        ctx.count("stepper-stack-capacity:%d" % (run["n"] * run["sf8"] // 8))
        gbad = None
        for g in glines[i]:
            # op slot status nsec E_pre E_post deposit step_length moved
            nfail_total += 1
            try:
                status, nsec = int(g[2]), int(g[3])
                e_pre, e_post, dep = (float.fromhex(x) for x in g[4:7])
            except ValueError:
                gbad = g
                continue
            if status != 2 or nsec != 0 or e_pre != e_post or dep != 0.0:
                gbad = g
        if len(ctx.samples) < 5 and glines[i]:
            ctx.sample({"stepper_run": stepper_text(run).splitlines(), "failed_interactions": len(glines[i]),
                        "first_failed(op slot status nsec E_pre E_post deposit step_length moved)": glines[i][0]})
        if not stepper_protocol_ok(optext[i]):
            nbad += 1
            if nbad <= 2:
                ctx.violation("correspondence", "the op sequence of the real Stepper does not follow `stepper_protocol` "
                              "(hypothesis of C16_reset_refines_fresh: initialize-tracks .. extend-from-secondaries only after the "
                              "primaries action has run since the last reset)",
                              {"run": run, "harness_input": stepper_text(run), "ops": [t.split()[0] for t in optext[i]][:40]}, no_input=True)
            continue
        if i in odd and nbad < 2:
            nbad += 1
            ctx.violation("property", "an exception escaped from an unexpected action during a starved Stepper run",
                          {"run": run, "harness_input": stepper_text(run), "ops_before": optext[i][-6:]})
            continue
        if diff is not None or orc is not None or gbad is not None or i in bad_result:
            nbad += 1
            if nbad > 2:
                continue
            replay = {"run": run, "harness_input": stepper_text(run), "ops": optext[i][:(diff or 0) + 1][-8:],
                      "first_differing_op": diff,
                      "impl_dump": im[diff] if diff is not None and diff < len(im) else None,
                      "model_dump": mo[diff] if diff is not None and diff < len(mo) else None}
            if gbad is not None:
                replay["failed_interaction"] = gbad
                ctx.violation("property", "a failed (out-of-secondary-storage) interaction changed the track "
                              "(status/secondaries/energy/deposit)", replay)
            elif orc is not None:
                replay["property_violated_at_op"], replay["property_violation"] = orc
                ctx.violation("property", "starved Stepper run violates the track bookkeeping: " + orc[1], replay)
            elif i in bad_result:
                ctx.violation("property", "StepperResult differs from the state counters", replay)
            else:
                ctx.violation("correspondence", "Stepper run and model differ at op %s "
                              "(RuntimeError expected exactly where the model says Err)" % diff, replay, no_input=True)
    return len(runs), nerr, nfail_total


def run(ctx):
    try:
        _run(ctx)
    except vlib.BuildError:
        raise
    except Exception:
        # nothing the real code does may turn into an "internal error" of the check
        import traceback
        ctx.violation("crash", "the check could not interpret the behaviour of the real code (see traceback)",
                      {"traceback": traceback.format_exc()[-3000:]}, no_input=True)


def _run(ctx):
    quick = ctx.tier == "quick"
    ctx.trusted += [
        "hand-written models coq/C16/Allocator.v and coq/C02/TrackInit.v tied by exact op-sequence differentials",
        "serial semantics of atomic_add (no concurrent allocation: OpenMP=event build)",
        "starved Stepper runs: the physics outcome of each step is observed by probe actions (public action API) and replayed through the model",
    ]
    ctx.assumptions += ["event_energy_conserved under failures is C01's invariant: a failed interaction is a no-op on the ledger (proved here as failed_interaction_preserves_track; the ledger itself is C01)",
                        "no ASan run in this check (thorough tier of the design)"]
    proofs_ok = ctx.coq_prove("Properties_C16.v")
    ok, log = ctx.coq_build(["C16/Allocator.vo", "C02/Run.vo"])
    if not ok:      # the shared coq/ tree may be mid-edit by another builder: one retry
        time.sleep(3)
        ok, log = ctx.coq_build(["C16/Allocator.vo", "C02/Run.vo"])
    if not ok:
        ctx.violation("model-broken", "the executable model no longer compiles", {"log": log[-2000:]}, no_input=True)
        return
    scale = float(os.environ.get("VERIF_SCALE", "1") or 1)   # mutation self-tests use a smaller run
    ctx.build_libs(["testcel_celeritas"])      # also generates the config headers the header-only harness needs
    t = time.time()
    na = run_allocator(ctx, int((500 if quick else 6000) * scale))
    ctx.log("allocator differential: %d cases in %.1fs" % (na, time.time() - t))
    c02run.MODEL_EXE["exe"] = ctx.ocaml_extract("C02/Extract.v", os.path.join(C02, "harness", "driver.ml"), "c02model_exe", "c02model")
    exe = build_util.compile_with_repo_sources(ctx, [os.path.join(C02, "harness", "trackinit.cc")], "trackinit",
                                               build_util.TRACK_TUS, LIBS)
    t = time.time()
    nl, nlerr = run_starved_oplists(ctx, exe, int((500 if quick else 8000) * scale))
    ctx.log("starved op lists: %d (%d with capacity errors) in %.1fs" % (nl, nlerr, time.time() - t))
    t = time.time()
    nk, nkfail = run_step_stack(ctx, exe, int((250 if quick else 4000) * scale))
    ctx.log("step-stack differential: %d cases, %d failed allocations in %.1fs" % (nk, nkfail, time.time() - t))
    ctx.coverage["step_stack_failed_allocations"] = nkfail
    t = time.time()
    ns, nserr, nfail = run_stepper(ctx, int((110 if quick else 2500) * scale))
    ctx.log("starved Stepper runs: %d, %d RuntimeErrors, %d failed interactions in %.1fs" % (ns, nserr, nfail, time.time() - t))
    ctx.coverage["stepper_runtime_errors"] = nserr
    ctx.coverage["stepper_failed_interactions"] = nfail
    if not proofs_ok and not ctx.violations:
        ctx.violation("proof-broken", "Properties_C16.v no longer checks", ctx.broken_proof, no_input=True)
    ctx.coverage["rule"] = ("allocator cases = (capacity 0..8, op list) random + exhaustive up to capacity 3 x 3 ops; op lists = C02 generator with tiny/tight "
                            "initializer capacity; Stepper runs = (slots, initializer capacity, order, stack factor, events); every dump compared exactly with the model; "
                            "non-trivial = allocator list >= 2 ops / op list with a capacity error / run with > 6 dumps")
    ctx.coverage["traces_validated_against_impl"] = na + nl + ns + nk
