// C16 starved-capacity stepping runs (also a C02 tie on the real Stepper loop).
//
// Runs the REAL celeritas::Stepper on the repo's SimpleTestBase problem
// (Compton gammas in two boxes) with a tiny secondary stack factor and a tiny
// initializer capacity.  Probe actions registered at the `generate`,
// `user_start` and `user_post` orders record the bookkeeping state between the
// real actions, and the per-slot outcome of the physics of each step (killed?,
// secondaries attached), so that the run can be replayed op by op through the
// C02 model (coq/C02/TrackInit.v): P/E, I, X(observed), S per step.
//
// stdin : RUN <slots> <init capacity> <order> <sf8> <nevents>
//         then per event: EV <unique event id> <maxsteps> <k> (pid energy_MeV)*k
// stdout: "O <run> <op index> <op text>"  the op as text (same syntax as trackinit.cc)
//         "D <run> <op index> <dump>"     state after the op (kind 1 = RuntimeError)
//         "F <run> <op index> <n>"        number of slots whose interaction failed
//                                         (post-step action = physics failure action)
//         "G <run> <op> <slot> <status> <nsec> <E_pre> <E_post> <deposit> <step_length> <moved>"
//                                         one line per failed interaction
#include <cmath>
#include <cstdio>
#include <iostream>
#include <sstream>

#include "corecel/sys/ActionRegistry.hh"
#include "celeritas/global/Stepper.hh"
#include "celeritas/phys/PhysicsParams.hh"

#include "../../C02/harness/trackinit_common.hh"

using namespace celeritas;
using namespace verif;

namespace
{
struct Log
{
    long run{-1};
    long opi{0};
    bool have_primaries{false};
    std::string ptext;
    size_type ninit_known{0};
    ActionId failure_action;
    size_type total_failed{0};
    std::vector<double> e_pre, x_pre, y_pre, z_pre;  // recorded at user_pre

    void emit(std::string const& optext,
              int kind,
              CoreState<MemSpace::host>& st)
    {
        std::cout << "O " << run << ' ' << opi << ' ' << optext << '\n';
        std::cout << "D " << run << ' ' << opi << ' ';
        if (kind == 0)
            ninit_known = st.counters().num_initializers;
        dump(std::cout, kind, st, ninit_known);
        ++opi;
    }
};

class Probe final : public CoreStepActionInterface
{
  public:
    Probe(ActionId id, StepActionOrder order, std::string label, Log* log)
        : id_(id), order_(order), label_(std::move(label)), log_(log)
    {
    }
    void step(CoreParams const& params, CoreStateHost& st) const final
    {
        if (order_ == StepActionOrder::generate)
        {
            log_->emit(log_->have_primaries ? log_->ptext : std::string("E"),
                       0,
                       st);
            log_->have_primaries = false;
        }
        else if (order_ == StepActionOrder::user_start)
        {
            log_->emit("I", 0, st);
        }
        else if (order_ == StepActionOrder::user_pre)
        {
            // pre-step energy and position of every track (for the failed-
            // interaction check at user_post)
            auto const& p = *params.ptr<MemSpace::native>();
            size_type n = st.size();
            log_->e_pre.assign(n, 0);
            log_->x_pre.assign(n, 0);
            log_->y_pre.assign(n, 0);
            log_->z_pre.assign(n, 0);
            for (size_type i = 0; i < n; ++i)
            {
                CoreTrackView track(p, st.ref(), TrackSlotId{i});
                if (track.make_sim_view().status() != TrackStatus::alive)
                    continue;
                log_->e_pre[i] = track.make_particle_view().energy().value();
                auto pos = track.make_geo_view().pos();
                log_->x_pre[i] = pos[0];
                log_->y_pre[i] = pos[1];
                log_->z_pre[i] = pos[2];
            }
        }
        else
        {
            // observed outcome of this step's physics, per slot
            std::ostringstream os;
            os << "X";
            auto const& p = *params.ptr<MemSpace::native>();
            size_type nfail = 0;
            for (size_type i = 0; i < st.size(); ++i)
            {
                CoreTrackView track(p, st.ref(), TrackSlotId{i});
                auto sim = track.make_sim_view();
                if (sim.status() == TrackStatus::inactive)
                {
                    os << " 0 0";
                    continue;
                }
                auto secs = track.make_physics_step_view().secondaries();
                os << ' ' << (sim.status() == TrackStatus::alive ? 0 : 1)
                   << ' ' << secs.size();
                for (auto const& s : secs)
                    os << ' ' << enc(s.particle_id);
                if (sim.post_step_action() == log_->failure_action)
                {
                    // G run op slot status nsec E_pre E_post deposit
                    //   step_length moved_distance
                    ++nfail;
                    auto pos = track.make_geo_view().pos();
                    double dx = pos[0] - log_->x_pre[i],
                           dy = pos[1] - log_->y_pre[i],
                           dz = pos[2] - log_->z_pre[i];
                    char buf[256];
                    std::snprintf(
                        buf,
                        sizeof(buf),
                        "G %ld %ld %u %d %zu %a %a %a %a %a\n",
                        log_->run,
                        log_->opi,
                        i,
                        static_cast<int>(sim.status()),
                        static_cast<std::size_t>(secs.size()),
                        log_->e_pre[i],
                        track.make_particle_view().energy().value(),
                        track.make_physics_step_view().energy_deposition().value(),
                        static_cast<double>(sim.step_length()),
                        std::sqrt(dx * dx + dy * dy + dz * dz));
                    std::cout << buf;
                }
            }
            std::cout << "F " << log_->run << ' ' << log_->opi << ' ' << nfail
                      << '\n';
            log_->total_failed += nfail;
            log_->emit(os.str(), 0, st);
        }
    }
    void step(CoreParams const&, CoreStateDevice&) const final
    {
        CELER_NOT_CONFIGURED("device");
    }
    ActionId action_id() const final { return id_; }
    std::string_view label() const final { return label_; }
    std::string_view description() const final { return "verif probe"; }
    StepActionOrder order() const final { return order_; }

  private:
    ActionId id_;
    StepActionOrder order_;
    std::string label_;
    Log* log_;
};

}  // namespace

int main()
{
    std::string line;
    Log log;
    while (std::getline(std::cin, line))
    {
        std::istringstream hs(line);
        std::string tag;
        hs >> tag;
        if (tag != "RUN")
            continue;
        ++log.run;
        log.opi = 0;
        log.ninit_known = 0;
        log.total_failed = 0;
        size_type n, nevents;
        Config cfg;
        cfg.max_events = 2;
        hs >> n >> cfg.capacity >> cfg.order >> cfg.sf8 >> nevents;
        Problem prob(cfg);
        auto reg = prob.action_reg();
        auto core = prob.core();
        reg->insert(std::make_shared<Probe>(
            reg->next_id(), StepActionOrder::generate, "probe-generate", &log));
        reg->insert(std::make_shared<Probe>(
            reg->next_id(), StepActionOrder::user_start, "probe-start", &log));
        reg->insert(std::make_shared<Probe>(
            reg->next_id(), StepActionOrder::user_pre, "probe-pre", &log));
        reg->insert(std::make_shared<Probe>(
            reg->next_id(), StepActionOrder::user_post, "probe-post", &log));
        log.failure_action = core->physics()->host_ref().scalars.failure_action();

        StepperInput inp;
        inp.params = core;
        inp.stream_id = StreamId{0};
        inp.num_track_slots = n;
        Stepper<MemSpace::host> step(inp);
        auto st = std::dynamic_pointer_cast<CoreState<MemSpace::host>>(
            step.sp_state());

        for (size_type e = 0; e < nevents; ++e)
        {
            std::getline(std::cin, line);
            std::istringstream es(line);
            std::string etag;
            unsigned long uid;
            size_type maxsteps, k;
            es >> etag >> uid >> maxsteps >> k;
            std::vector<Primary> ps(k);
            std::ostringstream pt;
            pt << "P " << k;
            for (auto& p : ps)
            {
                int pid;
                double en;
                es >> pid >> en;
                p.particle_id = ParticleId(pid);
                p.energy = units::MevEnergy(en);
                p.position = {0, 0, 0};
                p.direction = {0, 0, 1};
                p.time = 0;
                p.event_id = EventId(e % 2);
                pt << ' ' << (e % 2) << ' ' << pid << " 0";
            }
            // new event: reseed (RNG + track counters), as the drivers do
            step.reseed(UniqueEventId{uid});
            log.emit("Z", 0, *st);

            log.ptext = pt.str();
            bool first = true;
            size_type nsteps = 0;
            StepperResult res;
            res.alive = 1;
            int kind = 0;
            while (res && nsteps < maxsteps && kind == 0)
            {
                long op0 = log.opi;
                try
                {
                    if (first)
                    {
                        log.have_primaries = true;
                        res = step(make_span(ps));
                    }
                    else
                    {
                        res = step();
                    }
                    log.emit("S", 0, *st);
                    // StepperResult must mirror the counters
                    auto const& c = st->counters();
                    if (res.queued != c.num_initializers
                        || res.alive != c.num_alive
                        || res.active != c.num_active)
                    {
                        std::cout << "BADRESULT " << log.run << ' ' << log.opi
                                  << '\n';
                    }
                }
                catch (RuntimeError const&)
                {
                    kind = 1;
                }
                catch (DebugError const&)
                {
                    kind = 2;
                }
                catch (std::exception const&)
                {
                    kind = 3;
                }
                if (kind != 0)
                {
                    // which op threw: no probe ran -> insert(); else the
                    // action after the last probe (extend-from-secondaries)
                    long done = log.opi - op0;
                    std::string t = (done == 0)   ? log.ptext
                                    : (done == 3) ? std::string("S")
                                                  : std::string("?");
                    log.have_primaries = false;
                    log.emit(t, kind, *st);
                }
                first = false;
                ++nsteps;
            }
            if (kind != 0 || res)
            {
                // aborted (error) or cut short: reset the state for the next
                // event, as documented for CoreState::reset
                step.reset_state();
                log.emit("R", 0, *st);
            }
        }
        std::cout << "T " << log.run << ' ' << log.total_failed << '\n';
    }
    std::cout << "DONE " << (log.run + 1) << std::endl;
    return 0;
}
