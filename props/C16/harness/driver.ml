(* Driver for the extracted C16 allocator model (coq/C16/Allocator.v run_alloc):
   reads the same text as harness/alloc.cc, prints the same "D" lines. *)
open C16model

let rec nat_of_int n = if n <= 0 then O else S (nat_of_int (n - 1))
let rec int_of_nat = function O -> 0 | S k -> 1 + int_of_nat k
let words s = List.filter (fun w -> w <> "") (String.split_on_char ' ' (String.trim s))

let () =
  let caseno = ref (-1) in
  (try
    while true do
      match words (input_line stdin) with
      | ["CASE"; cap; nops] ->
        incr caseno;
        let ops = List.init (int_of_string nops) (fun _ ->
            match words (input_line stdin) with
            | ["A"; n; t] -> Alloc (nat_of_int (int_of_string n), nat_of_int (int_of_string t))
            | ["C"] -> Clear
            | _ -> failwith "bad op") in
        List.iteri (fun i d ->
            print_string (Printf.sprintf "D %d %d" !caseno i);
            List.iter (fun x -> print_char ' '; print_string (string_of_int (int_of_nat x))) d;
            print_newline ()) (run_alloc (nat_of_int (int_of_string cap)) ops)
      | ["STEPS"; slots; p; q; nsteps] ->
        (* step-stack model (coq/C16/StepStack.v run_steps): each step is one line
           "T (kind count tag)*slots", kind 0 inactive / 1 active / 2 errored *)
        incr caseno;
        let n = int_of_string slots in
        let steps = List.init (int_of_string nsteps) (fun _ ->
            match words (input_line stdin) with
            | "T" :: rest ->
              let rec go k l = if k = 0 then [] else
                  match l with
                  | kd :: c :: t :: r ->
                    { r_kind = (match int_of_string kd with 0 -> SInactive | 1 -> SActive | _ -> SErrored);
                      r_count = nat_of_int (int_of_string c); r_tag = nat_of_int (int_of_string t) } :: go (k - 1) r
                  | _ -> failwith "bad T" in
              go n rest
            | _ -> failwith "bad step") in
        List.iteri (fun i d ->
            print_string (Printf.sprintf "D %d %d" !caseno i);
            List.iter (fun x -> print_char ' '; print_string (string_of_int (int_of_nat x))) d;
            print_newline ())
          (run_steps (nat_of_int n) (nat_of_int (int_of_string p)) (nat_of_int (int_of_string q)) steps)
      | _ -> ()
    done
  with End_of_file -> ());
  Printf.printf "DONE %d\n" (!caseno + 1)
