// C16 allocator differential: the real header-only StackAllocator<T> on host
// Collections, driven by op lists.
// stdin : CASE <capacity> <nops>, then nops lines "A <n> <tag>" or "C"
// stdout: "D <case> <op> <result> <size> <storage...>"
//         result: 0 = null pointer, start+1 = allocated at start, 100 = cleared
#include <iostream>
#include <sstream>
#include <string>

#include "corecel/data/Collection.hh"
#include "corecel/data/StackAllocator.hh"
#include "corecel/data/StackAllocatorData.hh"

using namespace celeritas;

struct Item
{
    int tag{0};  // default member initialiser, like celeritas::Secondary
};

int main()
{
    std::string line;
    long caseno = -1;
    while (std::getline(std::cin, line))
    {
        std::istringstream hs(line);
        std::string tag;
        hs >> tag;
        if (tag != "CASE")
            continue;
        ++caseno;
        size_type cap, nops;
        hs >> cap >> nops;
        StackAllocatorData<Item, Ownership::value, MemSpace::host> val;
        // as resize(StackAllocatorData*) does, but capacity 0 is allowed here
        // (the physics state can end up with slots * factor == 0)
        resize(&val.storage, cap);
        resize(&val.size, 1);
        fill(size_type(0), &val.size);
        StackAllocatorData<Item, Ownership::reference, MemSpace::host> ref;
        ref.storage = val.storage;
        ref.size = val.size;
        StackAllocator<Item> allocate(ref);
        Item const* base = cap ? &ref.storage[ItemId<Item>{0}] : nullptr;
        for (size_type opi = 0; opi < nops; ++opi)
        {
            std::getline(std::cin, line);
            std::istringstream is(line);
            char op;
            is >> op;
            long result = 100;
            if (op == 'A')
            {
                size_type n;
                int t;
                is >> n >> t;
                Item* p = allocate(n);
                if (p)
                {
                    result = (p - base) + 1;
                    for (size_type i = 0; i < n; ++i)
                    {
                        if (t != 0)
                            p[i].tag = t;
                    }
                }
                else
                {
                    result = 0;
                }
            }
            else
            {
                allocate.clear();
            }
            std::cout << "D " << caseno << ' ' << opi << ' ' << result << ' '
                      << ref.size[ItemId<size_type>{0}];
            for (size_type i = 0; i < cap; ++i)
                std::cout << ' ' << ref.storage[ItemId<Item>{i}].tag;
            std::cout << '\n';
        }
    }
    std::cout << "DONE " << (caseno + 1) << std::endl;
    return 0;
}
