// C19 driver: ORANGE geometry input <-> JSON round trip on the real code.
//
// stdin: one JSON object per line (a "case"); stdout: one JSON object per
// line, prefixed by '@'.
//
//  {"mode":"rt","x":<D>}          build a real OrangeInput from the field-wise
//                                 description <D>, then
//     x0  = dump(X)                       (checks build/dump are inverse)
//     j   = tag(to_json(X))               or "enc_err"
//     j2  = tag(parse(dump_text(j)))      the text layer (only if != j)
//     x2  = dump(from_json(parse(text)))  or "dec_err"
//  {"mode":"file","path":...}     X = from_json(parse(file)), then as above;
//                                 with "nav":N also trace N rays through
//                                 OrangeParams built from X and from X2
//  {"mode":"dec","j":<tagged>}    x2 = dump(from_json(untag(j))) or "dec_err"
//  {"mode":"consts"}              constants the model hard-codes
//  {"mode":"update","j":<tagged>} the orange-update pipeline (the tool's own
//                                 run(), compiled from app/orange-update.cc):
//     t1 = run(dump_text(j)) or "err1";  j1 = tag(parse(t1))
//     t2 = run(t1) or "err2";            fixed = (t1 == t2); j2 if different
//     x1 = dump(from_json(parse(text(j)))), x2 = dump(from_json(parse(t1)))
//  {"mode":"updfile","path":...}  same, starting from the text of a file
//
// The field-wise description <D> is independent of to_json/from_json: it is
// written and read only by this file (floats are 16-hex-digit bit patterns).
#include <cmath>
#include <cstdint>
#include <cstring>
#include <fstream>
#include <iostream>
#include <limits>
#include <sstream>
#include <string>
#include <variant>
#include <vector>
#include <nlohmann/json.hpp>

#include "corecel/Types.hh"
#include "corecel/data/CollectionStateStore.hh"
#include "corecel/io/Label.hh"
#include "geocel/BoundingBox.hh"
#include "orange/OrangeData.hh"
#include "orange/OrangeInput.hh"
#include "orange/OrangeInputIO.json.hh"
#include "orange/OrangeParams.hh"
#include "orange/OrangeTrackView.hh"
#include "orange/OrangeTypes.hh"
#include "orange/surf/SurfaceTypeTraits.hh"
#include "orange/surf/VariantSurface.hh"
#include "orange/transform/VariantTransform.hh"

#include "corecel/Assert.hh"
#include "corecel/io/Logger.hh"
#include "corecel/sys/ScopedMpiInit.hh"

// The tool itself: app/orange-update.cc of the tree under test, with its
// main() renamed; celeritas::app::run (anonymous namespace) is then callable
// from this translation unit.
#define main orange_update_main
#include "../app/orange-update.cc"
#undef main

using namespace celeritas;
using json = nlohmann::json;

namespace
{
//---------------------------------------------------------------------------//
std::string fbits(double x)
{
    std::uint64_t u;
    std::memcpy(&u, &x, 8);
    char buf[32];
    std::snprintf(buf, sizeof(buf), "%016llx", (unsigned long long)u);
    return buf;
}
double bitsf(std::string const& s)
{
    std::uint64_t u = std::stoull(s, nullptr, 16);
    double x;
    std::memcpy(&x, &u, 8);
    return x;
}

//---------------------------------------------------------------------------//
// tagged JSON tree: floats -> "#f<bits>", strings -> "#s<text>"
json tag(json const& j)
{
    switch (j.type())
    {
        case json::value_t::number_float:
            return "#f" + fbits(j.get<double>());
        case json::value_t::string:
            return "#s" + j.get<std::string>();
        case json::value_t::array: {
            json r = json::array();
            for (auto const& e : j)
                r.push_back(tag(e));
            return r;
        }
        case json::value_t::object: {
            json r = json::object();
            for (auto it = j.begin(); it != j.end(); ++it)
                r[it.key()] = tag(it.value());
            return r;
        }
        default:
            return j;  // null, bool, integers
    }
}
json untag(json const& j)
{
    if (j.is_string())
    {
        auto s = j.get<std::string>();
        if (s.rfind("#f", 0) == 0)
            return bitsf(s.substr(2));
        return s.substr(2);
    }
    if (j.is_array())
    {
        json r = json::array();
        for (auto const& e : j)
            r.push_back(untag(e));
        return r;
    }
    if (j.is_object())
    {
        json r = json::object();
        for (auto it = j.begin(); it != j.end(); ++it)
            r[it.key()] = untag(it.value());
        return r;
    }
    return j;
}

//---------------------------------------------------------------------------//
// field-wise dump
json d_label(Label const& l)
{
    return json::array({l.name, l.ext});
}
json d_real3(Real3 const& v)
{
    return json::array({fbits(v[0]), fbits(v[1]), fbits(v[2])});
}
json d_bbox(BBox const& b)
{
    return json::array({d_real3(b.lower()), d_real3(b.upper())});
}
bool bits_equal(BBox const& a, BBox const& b)
{
    return std::memcmp(&a, &b, sizeof(BBox)) == 0;
}
json d_transform(VariantTransform const& t)
{
    json r = json::object();
    std::visit(
        [&r](auto const& tr) {
            r["k"] = static_cast<int>(tr.transform_type());
            json d = json::array();
            for (auto v : tr.data())
                d.push_back(fbits(v));
            r["d"] = d;
        },
        t);
    return r;
}
json d_volume(VolumeInput const& v)
{
    json r = json::object();
    r["label"] = d_label(v.label);
    json f = json::array();
    for (auto id : v.faces)
        f.push_back(id.unchecked_get());
    r["faces"] = f;
    r["logic"] = v.logic;
    r["bbox"] = d_bbox(v.bbox);
    if (bits_equal(v.obz.inner, BBox{}) && bits_equal(v.obz.outer, BBox{})
        && !v.obz.transform_id)
    {
        r["obz"] = nullptr;
    }
    else
    {
        r["obz"] = json::object({{"inner", d_bbox(v.obz.inner)},
                                 {"outer", d_bbox(v.obz.outer)},
                                 {"tid", v.obz.transform_id.unchecked_get()}});
    }
    r["flags"] = v.flags;
    r["zorder"] = static_cast<size_type>(v.zorder);
    return r;
}
json d_unit(UnitInput const& u)
{
    json r = json::object();
    r["k"] = "unit";
    r["label"] = d_label(u.label);
    json ss = json::array();
    for (auto const& vs : u.surfaces)
    {
        std::visit(
            [&ss](auto const& s) {
                json d = json::array();
                for (auto v : s.data())
                    d.push_back(fbits(v));
                ss.push_back(json::object(
                    {{"t", static_cast<int>(s.surface_type())}, {"d", d}}));
            },
            vs);
    }
    r["surfaces"] = ss;
    json vs = json::array();
    for (auto const& v : u.volumes)
        vs.push_back(d_volume(v));
    r["volumes"] = vs;
    r["bbox"] = d_bbox(u.bbox);
    json ds = json::array();
    for (auto const& [k, d] : u.daughter_map)
    {
        ds.push_back(json::array({k.unchecked_get(),
                                  d.universe_id.unchecked_get(),
                                  d_transform(d.transform)}));
    }
    r["daughters"] = ds;
    json sl = json::array();
    for (auto const& l : u.surface_labels)
        sl.push_back(d_label(l));
    r["surface_labels"] = sl;
    return r;
}
json d_rect(RectArrayInput const& a)
{
    json r = json::object();
    r["k"] = "rect";
    r["label"] = d_label(a.label);
    json g = json::array();
    for (auto const& ax : a.grid)
    {
        json gx = json::array();
        for (auto v : ax)
            gx.push_back(fbits(v));
        g.push_back(gx);
    }
    r["grid"] = g;
    json ds = json::array();
    for (auto const& d : a.daughters)
    {
        ds.push_back(json::array(
            {d.universe_id.unchecked_get(), d_transform(d.transform)}));
    }
    r["daughters"] = ds;
    return r;
}
json d_input(OrangeInput const& x)
{
    json r = json::object();
    json us = json::array();
    for (auto const& u : x.universes)
    {
        if (auto* p = std::get_if<UnitInput>(&u))
            us.push_back(d_unit(*p));
        else
            us.push_back(d_rect(std::get<RectArrayInput>(u)));
    }
    r["universes"] = us;
    r["tol"] = json::array({fbits(x.tol.rel), fbits(x.tol.abs)});
    return r;
}

//---------------------------------------------------------------------------//
// field-wise build
Label b_label(json const& j)
{
    return Label{j[0].get<std::string>(), j[1].get<std::string>()};
}
Real3 b_real3(json const& j)
{
    return Real3{bitsf(j[0].get<std::string>()),
                 bitsf(j[1].get<std::string>()),
                 bitsf(j[2].get<std::string>())};
}
BBox b_bbox(json const& j)
{
    return BBox::from_unchecked(b_real3(j[0]), b_real3(j[1]));
}
std::vector<real_type> b_reals(json const& j)
{
    std::vector<real_type> r;
    for (auto const& e : j)
        r.push_back(bitsf(e.get<std::string>()));
    return r;
}
VariantTransform b_transform(json const& j)
{
    auto d = b_reals(j["d"]);
    switch (j["k"].get<int>())
    {
        case 0:
            return NoTransformation{};
        case 1:
            return Translation{Real3{d[0], d[1], d[2]}};
        default:
            d.resize(12);
            return Transformation{Transformation::StorageSpan{d.data(), 12}};
    }
}
VolumeInput b_volume(json const& j)
{
    VolumeInput v;
    v.label = b_label(j["label"]);
    for (auto const& f : j["faces"])
        v.faces.emplace_back(f.get<size_type>());
    v.logic = j["logic"].get<std::vector<logic_int>>();
    v.bbox = b_bbox(j["bbox"]);
    if (!j["obz"].is_null())
    {
        v.obz.inner = b_bbox(j["obz"]["inner"]);
        v.obz.outer = b_bbox(j["obz"]["outer"]);
        v.obz.transform_id = TransformId{j["obz"]["tid"].get<size_type>()};
    }
    v.flags = j["flags"].get<logic_int>();
    v.zorder = static_cast<ZOrder>(j["zorder"].get<size_type>());
    return v;
}
UnitInput b_unit(json const& j)
{
    UnitInput u;
    u.label = b_label(j["label"]);
    for (auto const& s : j["surfaces"])
    {
        auto d = b_reals(s["d"]);
        auto st = static_cast<SurfaceType>(s["t"].get<int>());
        visit_surface_type(
            [&](auto st_constant) {
                using Surface = typename decltype(st_constant)::type;
                using StorageSpan = typename Surface::StorageSpan;
                d.resize(StorageSpan::extent);
                u.surfaces.emplace_back(std::in_place_type<Surface>,
                                        StorageSpan{d.data(), d.size()});
            },
            st);
    }
    for (auto const& v : j["volumes"])
        u.volumes.push_back(b_volume(v));
    u.bbox = b_bbox(j["bbox"]);
    for (auto const& d : j["daughters"])
    {
        DaughterInput di;
        di.universe_id = UniverseId{d[1].get<size_type>()};
        di.transform = b_transform(d[2]);
        u.daughter_map.emplace(LocalVolumeId{d[0].get<size_type>()},
                               std::move(di));
    }
    for (auto const& l : j["surface_labels"])
        u.surface_labels.push_back(b_label(l));
    return u;
}
RectArrayInput b_rect(json const& j)
{
    RectArrayInput a;
    a.label = b_label(j["label"]);
    for (int ax = 0; ax < 3; ++ax)
        a.grid[ax] = b_reals(j["grid"][ax]);
    for (auto const& d : j["daughters"])
    {
        DaughterInput di;
        di.universe_id = UniverseId{d[0].get<size_type>()};
        di.transform = b_transform(d[1]);
        a.daughters.push_back(std::move(di));
    }
    return a;
}
OrangeInput b_input(json const& j)
{
    OrangeInput x;
    for (auto const& u : j["universes"])
    {
        if (u["k"].get<std::string>() == "unit")
            x.universes.push_back(b_unit(u));
        else
            x.universes.push_back(b_rect(u));
    }
    x.tol.rel = bitsf(j["tol"][0].get<std::string>());
    x.tol.abs = bitsf(j["tol"][1].get<std::string>());
    return x;
}

//---------------------------------------------------------------------------//
// trace rays through a geometry; result is a list of per-ray step records
using StateStore = CollectionStateStore<OrangeStateData, MemSpace::host>;

json trace(OrangeInput inp, int nrays, unsigned seed)
{
    json out = json::array();
    OrangeParams params(std::move(inp));
    StateStore store(params.host_ref(), 1);
    auto const& bb = params.bbox();
    std::uint64_t s = seed * 6364136223846793005ULL + 1442695040888963407ULL;
    auto rnd = [&s]() {
        s = s * 6364136223846793005ULL + 1442695040888963407ULL;
        return double(s >> 11) / double(1ULL << 53);
    };
    for (int r = 0; r < nrays; ++r)
    {
        Real3 p, d;
        double n2 = 0;
        for (int ax = 0; ax < 3; ++ax)
        {
            double lo = bb.lower()[ax], hi = bb.upper()[ax];
            if (!(std::isfinite(lo) && std::isfinite(hi)))
            {
                lo = -10;
                hi = 10;
            }
            p[ax] = lo + (hi - lo) * (0.02 + 0.96 * rnd());
            d[ax] = 2 * rnd() - 1;
            n2 += d[ax] * d[ax];
        }
        for (int ax = 0; ax < 3; ++ax)
            d[ax] /= std::sqrt(n2);
        json steps = json::array();
        try
        {
            OrangeTrackView g(params.host_ref(), store.ref(), TrackSlotId{0});
            g = GeoTrackInitializer{p, d};
            for (int k = 0; k < 60 && !g.is_outside() && !g.failed(); ++k)
            {
                auto prop = g.find_next_step();
                steps.push_back(json::array(
                    {g.volume_id().unchecked_get(), fbits(prop.distance)}));
                if (!prop.boundary)
                    break;
                g.move_to_boundary();
                g.cross_boundary();
            }
            steps.push_back(g.failed() ? "failed"
                                       : (g.is_outside() ? "outside" : "in"));
        }
        catch (std::exception const& e)
        {
            steps.push_back(std::string("exception: ") + e.what());
        }
        out.push_back(steps);
    }
    return out;
}

//---------------------------------------------------------------------------//
void round_trip(OrangeInput const& X, json const& c, json& out)
{
    json J;
    try
    {
        J = X;
    }
    catch (std::exception const& e)
    {
        out["enc_err"] = std::string(e.what()).substr(0, 400);
        return;
    }
    out["j"] = tag(J);
    std::string text;
    json J2;
    try
    {
        text = J.dump(0);
        J2 = json::parse(text);
    }
    catch (std::exception const& e)
    {
        out["text_err"] = std::string(e.what()).substr(0, 400);
        return;
    }
    json t2 = tag(J2);
    if (t2 != out["j"])
        out["j2"] = t2;
    // the stream operators must give the same thing as the in-memory path
    {
        std::ostringstream os;
        os << X;
        if (os.str() != text)
            out["stream_differs"] = true;
    }
    OrangeInput X2;
    try
    {
        J2.get_to(X2);
    }
    catch (std::exception const& e)
    {
        out["dec_err"] = std::string(e.what()).substr(0, 400);
        return;
    }
    out["x2"] = d_input(X2);
    if (c.contains("nav"))
    {
        int n = c["nav"].get<int>();
        unsigned seed = c.value("seed", 1u);
        try
        {
            out["nav1"] = trace(X, n, seed);
            out["nav2"] = trace(X2, n, seed);
        }
        catch (std::exception const& e)
        {
            out["nav_err"] = std::string(e.what()).substr(0, 400);
        }
    }
}
//---------------------------------------------------------------------------//
// two passes of the real orange-update run()
void update_twice(std::string const& text0, json& out)
{
    try
    {
        OrangeInput X1;
        json::parse(text0).get_to(X1);
        out["x1"] = d_input(X1);
    }
    catch (std::exception const& e)
    {
        out["x1_err"] = std::string(e.what()).substr(0, 300);
    }
    std::string t1, t2;
    try
    {
        std::istringstream is(text0);
        t1 = celeritas::app::run(&is);
    }
    catch (std::exception const& e)
    {
        out["err1"] = std::string(e.what()).substr(0, 300);
        return;
    }
    out["j1"] = tag(json::parse(t1));
    try
    {
        OrangeInput X2;
        json::parse(t1).get_to(X2);
        out["x2"] = d_input(X2);
    }
    catch (std::exception const& e)
    {
        out["x2_err"] = std::string(e.what()).substr(0, 300);
    }
    try
    {
        std::istringstream is(t1);
        t2 = celeritas::app::run(&is);
    }
    catch (std::exception const& e)
    {
        out["err2"] = std::string(e.what()).substr(0, 300);
        return;
    }
    out["fixed"] = (t1 == t2);
    if (t1 != t2)
        out["j2"] = tag(json::parse(t2));
}
//---------------------------------------------------------------------------//
}  // namespace

int main()
{
    std::string line;
    while (std::getline(std::cin, line))
    {
        if (line.empty())
            continue;
        json out = json::object();
        try
        {
            json c = json::parse(line);
            out["id"] = c.value("id", 0);
            auto mode = c["mode"].get<std::string>();
            if (mode == "rt")
            {
                OrangeInput X = b_input(c["x"]);
                out["x0"] = d_input(X);
                round_trip(X, c, out);
            }
            else if (mode == "file")
            {
                OrangeInput X;
                std::ifstream f(c["path"].get<std::string>());
                json::parse(f).get_to(X);
                out["x0"] = d_input(X);
                round_trip(X, c, out);
            }
            else if (mode == "dec")
            {
                json J = untag(c["j"]);
                OrangeInput X2;
                try
                {
                    J.get_to(X2);
                    out["x2"] = d_input(X2);
                }
                catch (std::exception const& e)
                {
                    out["dec_err"] = std::string(e.what()).substr(0, 400);
                }
            }
            else if (mode == "update")
            {
                update_twice(untag(c["j"]).dump(), out);
            }
            else if (mode == "updfile")
            {
                std::ifstream f(c["path"].get<std::string>());
                std::stringstream ss;
                ss << f.rdbuf();
                update_twice(ss.str(), out);
            }
            else if (mode == "consts")
            {
                auto t = Tolerance<>::from_default();
                out["default_tol"] = json::array({fbits(t.rel), fbits(t.abs)});
                out["units"] = to_cstring(UnitSystem::native);
                out["lbegin"] = static_cast<size_type>(logic::lbegin);
                out["dbl_max"] = fbits(std::numeric_limits<double>::max());
                out["invalid_id"] = UniverseId{}.unchecked_get();
                out["null_bbox"] = d_bbox(BBox{});
                out["inf_bbox"] = d_bbox(BBox::from_infinite());
            }
        }
        catch (std::exception const& e)
        {
            out["harness_err"] = std::string(e.what()).substr(0, 400);
        }
        std::cout << '@' << out.dump() << std::endl;
    }
    return 0;
}
