(* C19 — driver for the OCaml extraction of the Coq model (coq/C19/Extract.v).
   Reads one case per line from stdin (token format written by props/C19/c19lib.py),
   evaluates the extracted run_rt / run_dec / run_consts, prints one JSON line per case.
   Numbers: ints "#i<hex>", doubles "#f<16 hex digits>", strings "#s<text>". *)
module M = C19model

let z_of_hex (h : string) : M.z =
  let neg = String.length h > 0 && h.[0] = '-' in
  let h = if neg then String.sub h 1 (String.length h - 1) else h in
  let acc = ref None in
  String.iter (fun c ->
    let v = int_of_string ("0x" ^ String.make 1 c) in
    for k = 3 downto 0 do
      let b = (v lsr k) land 1 = 1 in
      acc := (match !acc with
              | None -> if b then Some M.XH else None
              | Some p -> Some (if b then M.XI p else M.XO p))
    done) h;
  match !acc with
  | None -> M.Z0
  | Some p -> if neg then M.Zneg p else M.Zpos p

let hex_of_pos (p : M.positive) : string =
  (* bits LSB first *)
  let rec bits p acc = match p with
    | M.XH -> true :: acc
    | M.XO q -> bits q (false :: acc)
    | M.XI q -> bits q (true :: acc) in
  (* bits returns MSB first because we cons while descending towards the MSB?  no:
     descending p goes from LSB to MSB, consing puts later (more significant) bits in front *)
  let msb_first = bits p [] in
  let n = List.length msb_first in
  let pad = (4 - n mod 4) mod 4 in
  let all = (List.init pad (fun _ -> false)) @ msb_first in
  let buf = Buffer.create 20 in
  let rec go l = match l with
    | a :: b :: c :: d :: r ->
        let v = (if a then 8 else 0) + (if b then 4 else 0) + (if c then 2 else 0) + (if d then 1 else 0) in
        Buffer.add_char buf "0123456789abcdef".[v]; go r
    | _ -> () in
  go all; Buffer.contents buf

let hex_of_z (z : M.z) : string = match z with
  | M.Z0 -> "0"
  | M.Zpos p -> hex_of_pos p
  | M.Zneg p -> "-" ^ hex_of_pos p

let ascii_of_char (c : char) : M.ascii =
  let n = Char.code c in
  let b k = (n lsr k) land 1 = 1 in
  M.Ascii (b 0, b 1, b 2, b 3, b 4, b 5, b 6, b 7)

let char_of_ascii (a : M.ascii) : char = match a with
  | M.Ascii (b0, b1, b2, b3, b4, b5, b6, b7) ->
      let v x k = if x then 1 lsl k else 0 in
      Char.chr (v b0 0 + v b1 1 + v b2 2 + v b3 3 + v b4 4 + v b5 5 + v b6 6 + v b7 7)

let mstr (s : string) : M.string =
  let r = ref M.EmptyString in
  for i = String.length s - 1 downto 0 do r := M.String (ascii_of_char s.[i], !r) done; !r

let ostr (s : M.string) : string =
  let buf = Buffer.create 16 in
  let rec go s = match s with
    | M.EmptyString -> ()
    | M.String (a, r) -> Buffer.add_char buf (char_of_ascii a); go r in
  go s; Buffer.contents buf

(* ---- token stream ---- *)
let toks : string array ref = ref [||]
let pos = ref 0
let next () = let t = !toks.(!pos) in incr pos; t
let count () = int_of_string (next ())
let rep n f = List.init n (fun _ -> f ())   (* List.init applies f in increasing index order *)
let rec repl n f = if n = 0 then [] else let x = f () in x :: repl (n - 1) f
let rd_int () = let t = next () in
  if String.length t > 1 && t.[0] = '-' then z_of_hex ("-" ^ String.sub t 2 (String.length t - 2))
  else z_of_hex (String.sub t 1 (String.length t - 1))
let rd_flt () = z_of_hex (next ())
let unhex (h : string) : string =
  String.init (String.length h / 2) (fun i -> Char.chr (int_of_string ("0x" ^ String.sub h (2 * i) 2)))
let rd_str () = let t = next () in mstr (unhex (String.sub t 1 (String.length t - 1)))
let rd_label () = let a = rd_str () in let b = rd_str () in { M.l_name = a; M.l_ext = b }
let rd_vec3 () = let a = rd_flt () in let b = rd_flt () in let c = rd_flt () in ((a, b), c)
let rd_bbox () = let lo = rd_vec3 () in let hi = rd_vec3 () in { M.b_lo = lo; M.b_hi = hi }
let rd_transform () =
  let k = count () in
  match k with
  | 0 -> M.NoTrans
  | 1 -> M.Transl (rd_vec3 ())
  | _ -> let a = rd_vec3 () in let b = rd_vec3 () in let c = rd_vec3 () in let d = rd_vec3 () in M.Transf (a, b, c, d)
let zorder_of = function
  | "ZInvalid" -> M.ZInvalid | "ZBackground" -> M.ZBackground | "ZMedia" -> M.ZMedia
  | "ZArray" -> M.ZArray | "ZHole" -> M.ZHole | "ZImplExt" -> M.ZImplExt | _ -> M.ZExterior
let rd_volume () =
  let label = rd_label () in
  let nf = count () in let faces = repl nf rd_int in
  let nl = count () in let logic = repl nl rd_int in
  let bb = rd_bbox () in
  let obz = (match next () with
             | "N" -> None
             | _ -> let i = rd_bbox () in let o = rd_bbox () in let t = rd_int () in
                    Some { M.obz_inner = i; M.obz_outer = o; M.obz_tid = t }) in
  let flags = rd_int () in
  let zo = zorder_of (next ()) in
  { M.v_label = label; M.v_faces = faces; M.v_logic = logic; M.v_bbox = bb; M.v_obz = obz;
    M.v_flags = flags; M.v_zorder = zo }
let rd_surface () =
  let t = count () in
  let ty = List.nth M.all_surf_types t in
  let n = count () in
  let d = repl n rd_flt in
  { M.s_type = ty; M.s_data = d }
let rd_universe () =
  match next () with
  | "U" ->
      let label = rd_label () in
      let ns = count () in let ss = repl ns rd_surface in
      let nv = count () in let vs = repl nv rd_volume in
      let bb = rd_bbox () in
      let nd = count () in
      let ds = repl nd (fun () -> let k = rd_int () in let u = rd_int () in let t = rd_transform () in
                                  (k, { M.d_univ = u; M.d_trans = t })) in
      let nl = count () in let sl = repl nl rd_label in
      M.UUnit { M.u_surfaces = ss; M.u_volumes = vs; M.u_bbox = bb; M.u_daughters = ds;
                M.u_surface_labels = sl; M.u_label = label }
  | _ ->
      let label = rd_label () in
      let grid () = let n = count () in repl n rd_flt in
      let gx = grid () in let gy = grid () in let gz = grid () in
      let nd = count () in
      let ds = repl nd (fun () -> let u = rd_int () in let t = rd_transform () in { M.d_univ = u; M.d_trans = t }) in
      M.URect { M.r_grid = ((gx, gy), gz); M.r_daughters = ds; M.r_label = label }
let rd_input () =
  let n = count () in
  let us = repl n rd_universe in
  let rel = rd_flt () in let ab = rd_flt () in
  { M.oi_universes = us; M.oi_tol = { M.t_rel = rel; M.t_abs = ab } }
let rec rd_json () : M.json =
  match next () with
  | "n" -> M.JNull
  | "t" -> M.JBool true
  | "f" -> M.JBool false
  | "i" -> M.JInt (rd_int ())
  | "d" -> M.JFlt (rd_flt ())
  | "s" -> M.JStr (rd_str ())
  | "a" -> let n = count () in M.JArr (repl n rd_json)
  | _ -> let n = count () in M.JObj (repl n (fun () -> let k = rd_str () in let v = rd_json () in (k, v)))

(* ---- JSON printer ---- *)
let esc (buf : Buffer.t) (s : string) =
  String.iter (fun c ->
    if c = '"' then Buffer.add_string buf "\\\""
    else if c = '\\' then Buffer.add_string buf "\\\\"
    else if Char.code c < 32 || Char.code c > 126 then Buffer.add_string buf (Printf.sprintf "\\u%04x" (Char.code c))
    else Buffer.add_char buf c) s
let rec pr (buf : Buffer.t) (j : M.json) =
  match j with
  | M.JNull -> Buffer.add_string buf "null"
  | M.JBool b -> Buffer.add_string buf (if b then "true" else "false")
  | M.JInt z -> Buffer.add_string buf ("\"#i" ^ hex_of_z z ^ "\"")
  | M.JFlt f ->
      let h = hex_of_z f in
      let h = if String.length h < 16 && String.length h > 0 && h.[0] <> '-' then String.make (16 - String.length h) '0' ^ h else h in
      Buffer.add_string buf ("\"#f" ^ h ^ "\"")
  | M.JStr s -> Buffer.add_string buf "\"#s"; esc buf (ostr s); Buffer.add_char buf '"'
  | M.JArr l ->
      Buffer.add_char buf '[';
      List.iteri (fun i e -> if i > 0 then Buffer.add_char buf ','; pr buf e) l;
      Buffer.add_char buf ']'
  | M.JObj m ->
      Buffer.add_char buf '{';
      List.iteri (fun i (k, v) -> if i > 0 then Buffer.add_char buf ',';
                   Buffer.add_char buf '"'; esc buf (ostr k); Buffer.add_string buf "\":"; pr buf v) m;
      Buffer.add_char buf '}'
let pr_opt buf = function None -> Buffer.add_string buf "null" | Some j -> pr buf j

let () =
  try
    while true do
      let line = input_line stdin in
      let ts = List.filter (fun s -> s <> "") (String.split_on_char ' ' line) in
      toks := Array.of_list ts; pos := 0;
      let buf = Buffer.create 4096 in
      (match next () with
       | "RT" ->
           let x = rd_input () in
           let (((wf, enc), wire), dec) = M.run_rt x in
           Buffer.add_string buf (Printf.sprintf "{\"wf\":%s,\"enc\":" (if wf then "true" else "false"));
           pr_opt buf enc; Buffer.add_string buf ",\"wire\":"; pr_opt buf wire;
           Buffer.add_string buf ",\"dec\":"; pr_opt buf dec; Buffer.add_char buf '}'
       | "UPD" ->
           let j = rd_json () in
           let (((((dec, rx), wf), j1), j1w), j2) = M.run_update j in
           let b x = if x then "true" else "false" in
           Buffer.add_string buf (Printf.sprintf "{\"dec\":%s,\"rx\":%s,\"wf\":%s,\"j1\":" (b dec) (b rx) (b wf));
           pr_opt buf j1; Buffer.add_string buf ",\"j1w\":"; pr_opt buf j1w;
           Buffer.add_string buf ",\"j2\":"; pr_opt buf j2; Buffer.add_char buf '}'
       | "DEC" ->
           let j = rd_json () in
           Buffer.add_string buf "{\"dec\":"; pr_opt buf (M.run_dec j); Buffer.add_char buf '}'
       | _ ->
           let (((((((rel, ab), units), lbegin), fmax), invalid), nullb), infb) = M.run_consts in
           Buffer.add_string buf "{\"consts\":";
           pr buf (M.JArr [M.JFlt rel; M.JFlt ab; M.JStr units; M.JInt lbegin; M.JFlt fmax; M.JInt invalid; nullb; infb]);
           Buffer.add_char buf '}');
      print_endline (Buffer.contents buf)
    done
  with End_of_file -> ()
