"""C19 — ORANGE geometry input survives a JSON round trip.

proofs (Properties_C19.v: codec round-trip theorems + key/arity obligations
regenerated from the source by translators/json_keys.py)
+ correspondence (real to_json / from_json vs the model's enc / dec, as trees)
+ property oracle on the implementation (from_json(parse(dump(to_json x))) == x
  field-wise, for generated inputs and every bundled .org.json; same
  navigation on OrangeParams built before/after)."""
import glob
import json
import os
import subprocess
import sys

import vlib

HERE = os.path.dirname(os.path.abspath(__file__))
sys.path.insert(0, HERE)
sys.path.insert(0, os.path.join(vlib.VERIF, "translators"))
import c19lib as L  # noqa: E402
import json_keys  # noqa: E402


SIG_INVOLUTE = "involute-from-json-unreachable"


def has_involute(x):
    return any(s["t"] == L.SURF.index("inv") for u in x["universes"] if u["k"] == "unit" for s in u["surfaces"])


def run_cases(ctx, exe, cases):
    """Run the harness on a list of case dicts; a crash is isolated to the
    case that caused it (the rest are re-run)."""
    results = {}
    todo = list(cases)
    while todo:
        inp = "".join(json.dumps(c) + "\n" for c in todo)
        rc, out = ctx.run_harness(exe, input=inp, timeout=900)
        done = 0
        for line in out.splitlines():
            if line.startswith("@"):
                o = json.loads(line[1:])
                results[todo[done]["id"]] = o
                done += 1
        if done == len(todo):
            break
        # the case after the last answered one killed the process
        results[todo[done]["id"]] = {"crash": "harness died (rc=%d) while processing this case" % rc}
        todo = todo[done + 1:]
    return [results[c["id"]] for c in cases]


def model_eval(ctx, mexe, lines):
    """Evaluate the extracted model on token-format case lines, in parallel."""
    if not lines:
        return []
    nproc = min(vlib.NCPU, 8, max(1, len(lines) // 20))
    chunks = [lines[i::nproc] for i in range(nproc)]
    procs = []
    for ch in chunks:
        p = subprocess.Popen([mexe], stdin=subprocess.PIPE, stdout=subprocess.PIPE, stderr=subprocess.PIPE, text=True)
        procs.append(p)
    import threading
    outs = [None] * nproc

    def work(k):
        o, e = procs[k].communicate("".join(l + "\n" for l in chunks[k]))
        outs[k] = (procs[k].returncode, o, e)
    th = [threading.Thread(target=work, args=(k,)) for k in range(nproc)]
    [t.start() for t in th]
    [t.join() for t in th]
    res = [None] * len(lines)
    for k in range(nproc):
        rc, o, e = outs[k]
        ol = o.splitlines()
        if rc != 0 or len(ol) != len(chunks[k]):
            raise RuntimeError("extracted model failed (rc=%s, %d/%d answers): %s" % (rc, len(ol), len(chunks[k]), e[-500:]))
        for i, l in enumerate(ol):
            res[k + i * nproc] = json.loads(l)
    return res


def mv_of(o):
    return (o["wf"], o["enc"], o["wire"], o["dec"])


def check_consts(ctx, exe, mexe):
    res = run_cases(ctx, exe, [{"id": 0, "mode": "consts"}])[0]
    m = L.m_json(model_eval(ctx, mexe, ["CONSTS"])[0]["consts"], "D")
    model = {"default_tol": [m[0], m[1]], "units": m[2], "lbegin": m[3],
             "dbl_max": m[4], "invalid_id": m[5], "null_bbox": m[6], "inf_bbox": m[7]}
    impl = {k: res.get(k) for k in model}
    if impl != model:
        ctx.violation("correspondence", "constants hard-coded in the model differ from the build under test",
                      {"impl": impl, "model": model}, no_input=True)
        return False
    return True


def oracle_round_trip(res):
    """The property itself on the implementation's outputs: None if it holds,
    else a description."""
    if "crash" in res:
        return "crash: " + res["crash"]
    for k in ("enc_err", "text_err", "dec_err", "harness_err"):
        if k in res:
            return "%s: %s" % (k, res[k][:200])
    if res.get("x2") != res.get("x0"):
        return "field-wise difference after round trip at " + str(L.first_diff(res.get("x0"), res.get("x2")))
    if "nav1" in res and res["nav1"] != res.get("nav2"):
        return "navigation differs after round trip at " + str(L.first_diff(res["nav1"], res.get("nav2")))
    if "nav_err" in res:
        return "navigation: " + res["nav_err"][:200]
    return None


def compare_with_model(res, mv):
    """Correspondence of one round-trip case; returns a list of disagreements."""
    wfb, menc, mwire, mdec = mv
    dis = []
    if "crash" in res:
        # undefined behaviour on the implementation side: the model says None
        if mdec is not None:
            dis.append("implementation crashed but the model decodes")
        return dis
    if "enc_err" in res:
        if menc is not None:
            dis.append("to_json threw (%s) but the model encodes" % res["enc_err"][:80])
        return dis
    if menc is None:
        dis.append("model enc is an error but to_json succeeded")
        return dis
    tj = L.m_json(menc, "T")
    if tj != res.get("j"):
        dis.append("to_json tree differs from model enc at " + str(L.first_diff(res.get("j"), tj)))
    tw = L.m_json(mwire, "T") if mwire is not None else tj
    if tw != res.get("j2", res.get("j")):
        dis.append("dump/parse tree differs from model wire(enc) at " + str(L.first_diff(res.get("j2", res.get("j")), tw)))
    if "dec_err" in res:
        if mdec is not None:
            dis.append("from_json threw (%s) but the model decodes" % res["dec_err"][:80])
    elif mdec is None:
        dis.append("model dec is an error but from_json succeeded")
    else:
        td = L.m_json(mdec, "D")
        if td != res.get("x2"):
            dis.append("from_json result differs from model dec at " + str(L.first_diff(res.get("x2"), td)))
    return dis


def legacy_variants(rng, tj):
    """Rewrite a tagged to_json tree into older spellings that from_json still
    accepts (and a few it must reject)."""
    j = json.loads(json.dumps(tj))
    what = []
    for u in j.get("universes", []):
        if u.get("_type") == "#sunit":
            if rng.random() < 0.5 and "volumes" in u:
                u["cells"] = u.pop("volumes"); what.append("cells")
            if rng.random() < 0.5 and "volume_labels" in u:
                u["cell_names"] = u.pop("volume_labels"); what.append("cell_names")
            if rng.random() < 0.5 and "surface_labels" in u:
                u["surface_names"] = u.pop("surface_labels"); what.append("surface_names")
            if rng.random() < 0.3:
                u.pop("surface_labels", None); u.pop("surface_names", None); what.append("no-surface-labels")
            if rng.random() < 0.3:
                u.pop("volume_labels", None); u.pop("cell_names", None); what.append("no-volume-labels")
            if "parent_cells" in u and rng.random() < 0.5:
                u["parent_volumes"] = u.pop("parent_cells"); what.append("parent_volumes")
            if "transforms" in u and all(len(t) in (0, 3) for t in u["transforms"]) and rng.random() < 0.6:
                tr = []
                for t in u.pop("transforms"):
                    tr += t if t else ["#f" + L.bits(0.0)] * 3
                u["translations"] = tr; what.append("translations")
            if rng.random() < 0.3:
                u["_type"] = "#ssimple unit"; what.append("simple unit")
            for v in u.get("cells", u.get("volumes", [])):
                if "zorder" in v and rng.random() < 0.5:
                    z = {"B": 1, "M": 2, "A": 3, "H": 4, "x": rng.choice([65534, L.UINT - 2]),
                         "X": rng.choice([65533, L.UINT - 1]), "!": 0}[v["zorder"][2:]]
                    v["zorder"] = z; what.append("int-zorder")
                if rng.random() < 0.05:
                    v["zorder"] = "#s" + rng.choice(["MM", "", "q"]); what.append("bad-zorder")
        else:
            if rng.random() < 0.3:
                u["_type"] = "#srectangular array"; what.append("rectangular array")
            if rng.random() < 0.4:
                n = len(u["daughters"])
                perm = list(range(n)); rng.shuffle(perm)
                u["parent_cells"] = perm; what.append("rect-parent_cells")
            if rng.random() < 0.1:
                u["transforms"] = []; what.append("rect-transforms")
    c = rng.random()
    if c < 0.2:
        j.pop("tol", None); what.append("no-tol")
    elif c < 0.3:
        j.pop("_units", None); what.append("no-units")
    elif c < 0.35:
        j["_units"] = "#ssi"; what.append("units-si")
    elif c < 0.45:
        j["_format"] = "#s" + rng.choice(["orange", "SCALE ORANGE", "Orange"]); what.append("format")
    elif c < 0.5:
        j.pop("_version", None); what.append("no-version")
    return j, what


# ---------------------------------------------------------------------------
# reader side / orange-update: documents the reader accepts, aimed at the
# exceptions of ReaderProofs.dec_input_wf_iff (rx_input) and at their
# boundaries

def _f(x):
    return "#f" + L.bits(x)


def reader_variants(rng, tj):
    """Rewrite a tagged to_json tree into another document the reader accepts
    (mostly); returns (doc, what)."""
    j = json.loads(json.dumps(tj))
    what = []
    units = [u for u in j.get("universes", []) if u.get("_type") == "#sunit"]
    rects = [u for u in j.get("universes", []) if u.get("_type") != "#sunit"]
    vols = [v for u in units for v in u.get("volumes", []) if v.get("zorder") != "#sB"]
    c = rng.random()
    if c < 0.12 and vols:
        v = rng.choice(vols)
        v["logic"] = "#s" + rng.choice(["", " ", "   "]); what.append("empty-logic")
        if rng.random() < 0.6:
            v["flags"] = 2; what.append("implicit-vol-flag")
    elif c < 0.30 and vols:
        v = rng.choice(vols)
        n = rng.choice([L.LOPEN, L.LCLOSE, L.LEND, L.LTRUE, L.LOR, L.LAND, L.LNOT, L.LBEGIN - 1,
                        L.UINT, L.UINT + 3, 2 * L.UINT + L.LOPEN, 10 * L.UINT + 7, 0, 7])
        tok = {L.LOPEN: "digits-lopen", L.LCLOSE: "digits-lclose", L.LEND: "digits-lend"}.get(n % L.UINT, "digits-other")
        pre = rng.choice(["", "0 ", "* ", "1 ~ "])
        post = rng.choice(["", " ~", " 2 &", " |"])
        v["logic"] = "#s" + pre + rng.choice(["", "000"]) + str(n) + post; what.append(tok)
    elif c < 0.42 and vols:
        v = rng.choice(vols)
        k = rng.random()
        if k < 0.5:
            v["bbox"] = [[_f(1.0), _f(rng.choice([0.0, 1.0, 2.0])), _f(1.0)], [_f(0.0), _f(3.0), _f(2.0)]]; what.append("vol-bbox-inverted")
        elif k < 0.7:
            v["bbox"] = None; what.append("vol-bbox-null")
        elif k < 0.85:
            v["bbox"] = [[_f(-L.DBL_MAX)] * 3, [_f(L.DBL_MAX)] * 3]; what.append("vol-bbox-explicit-infinite")
        else:
            v["bbox"] = [[_f(0.0), _f(0.0), _f(-0.0)], [_f(0.0), _f(-0.0), _f(0.0)]]; what.append("vol-bbox-degenerate")
    elif c < 0.52 and units:
        u = rng.choice(units)
        k = rng.random()
        if k < 0.4:
            u["bbox"] = None; what.append("unit-bbox-null")
        elif k < 0.7:
            u["bbox"] = [[_f(2.0), _f(0.0), _f(0.0)], [_f(1.0), _f(1.0), _f(1.0)]]; what.append("unit-bbox-inverted")
        elif k < 0.85:
            u["bbox"] = [[_f(-L.DBL_MAX)] * 3, [_f(L.DBL_MAX)] * 3]; what.append("unit-bbox-explicit-infinite")
        else:
            u.pop("bbox", None); what.append("unit-bbox-absent")
    elif c < 0.72 and (units or rects):
        lab = "#s" + rng.choice(["a@b@", "a@@", "@", "@@", "a@", "@x", "a@b@c", "n@@e", "plain", "", "x@y"])
        tgt = rng.random()
        u = rng.choice(units or rects)
        if tgt < 0.35 or u not in units:
            u["md"]["name"] = lab; what.append("universe-label")
        elif tgt < 0.7 and u.get("volume_labels"):
            u["volume_labels"][rng.randrange(len(u["volume_labels"]))] = lab; what.append("volume-label")
        elif u.get("surface_labels"):
            u["surface_labels"][rng.randrange(len(u["surface_labels"]))] = lab; what.append("surface-label")
        else:
            u["md"]["name"] = lab; what.append("universe-label")
        what.append("label:" + lab[2:])
    elif c < 0.84 and vols:
        v = rng.choice(vols)
        z = rng.choice([0, 1, 2, 3, 4, 5, 6, 7, 65532, 65533, 65534, 65535, 65536, L.UINT - 3, L.UINT - 2, L.UINT - 1])
        v["zorder"] = z; what.append("int-zorder:%d" % z)
    elif c < 0.90 and vols:
        v = rng.choice(vols)
        v["zorder"] = "#s" + rng.choice(["!", "?", "m", "b", "x", "X", "A", "H"]); what.append("char-zorder")
    else:
        what.append("unchanged")
    return j, what


def py_wire(t):
    """what parse(dump(.)) makes of a tagged tree: non-finite doubles become null"""
    if isinstance(t, str) and t.startswith("#f"):
        x = L.unbits(t[2:])
        return t if x == x and abs(x) != L.INF else None
    if isinstance(t, list):
        return [py_wire(e) for e in t]
    if isinstance(t, dict):
        return {k: py_wire(v) for k, v in t.items()}
    return t


def t_upd(j):
    return " ".join(L.t_json(j, ["UPD"]))


def check_update_case(ctx, c, what, res, mo, report_dis, stats):
    """One document through orange-update twice: implementation vs model, then
    the property oracle (second pass is a fixed point whenever the model says
    the decoded input is none of the exceptions)."""
    for w in what:
        ctx.count("upd:" + (w if not w.startswith("label:") else "label-string"))
    ctx.case(("upd", c["j"]), nontrivial=("j1" in res))
    if "crash" in res or "harness_err" in res:
        if mo["dec"]:
            report_dis("correspondence", "orange-update crashed on a document the model decodes", {"json": c["j"], "what": what, "res": res})
        return
    impl_dec = "err1" not in res
    if impl_dec != bool(mo["dec"]):
        report_dis("correspondence", "orange-update pass 1: implementation %s, model %s (%s)" % (
            "succeeds" if impl_dec else "throws: " + res.get("err1", "")[:80], "decodes" if mo["dec"] else "rejects", ",".join(what)),
            {"json": c["j"], "what": what})
        return
    if not impl_dec:
        stats["rejected"] += 1
        return
    mj1 = L.m_json(mo["j1w"], "T") if mo["j1w"] is not None else None
    if mj1 != res.get("j1"):
        report_dis("correspondence", "orange-update pass-1 output differs from the model's update_file at %s (%s)" % (
            L.first_diff(res.get("j1"), mj1), ",".join(what)), {"json": c["j"], "what": what, "impl": res.get("j1"), "model": mj1})
    impl2 = None if "err2" in res else (res["j1"] if res.get("fixed") else res.get("j2"))
    mj2 = L.m_json(mo["j2"], "T") if mo["j2"] is not None else None
    if impl2 != mj2 and mj1 == res.get("j1"):
        report_dis("correspondence", "orange-update pass-2 differs from the model (%s): impl %s, model %s" % (
            ",".join(what), "throws" if impl2 is None else "writes", "fails" if mj2 is None else "writes"),
            {"json": c["j"], "what": what, "impl": impl2, "model": mj2, "err2": res.get("err2")})
    # property oracle on the implementation
    fixed = bool(res.get("fixed")) and res.get("x2") == res.get("x1") and "x1" in res
    if mo["rx"]:
        stats["rx"] += 1
        if not mo["wf"]:
            report_dis("correspondence", "model: decoded input satisfies rx but not wf (contradicts dec_input_wf_iff)", {"json": c["j"]})
        if not fixed:
            stats["bad"] += 1
            if stats["bad"] <= 5:
                ctx.violation("round-trip", "orange-update: a document the reader accepts (none of the listed exceptions) "
                              "is not a fixed point at the second pass: %s" % (res.get("err2") or L.first_diff(res.get("x1"), res.get("x2")) or "text differs"),
                              {"document_tagged": c["j"], "variation": what, "pass1": res.get("j1"), "pass2": res.get("j2"),
                               "err2": res.get("err2"), "how": "app/orange-update.cc run() twice"})
    else:
        stats["exception"] += 1
        kind = "fails" if "err2" in res else ("value-changes" if res.get("x2") != res.get("x1") else "survives")
        ctx.count("upd-exception:" + kind)
        if fixed:
            stats["exception_survives"] += 1


def run(ctx):
    quick = ctx.tier == "quick"
    n_gen = 400 if quick else 6000
    n_leg = 150 if quick else 2000
    ctx.trusted += [
        "hand-written model coq/C19/Json.v, coq/C19/OrangeCodec.v, tied by (a) keys/surface names/arities/visit cases "
        "re-extracted from the source on every run (translators/json_keys.py -> coq/Generated/C19_keys.v, obligations in "
        "Properties_C19.v) and (b) tree-level differential of to_json/from_json against enc/dec (props/C19/run.py, harness/roundtrip.cc)",
        "nlohmann::json number printing/parsing: every finite double survives dump/parse bit-exactly, non-finite doubles "
        "are written as null (model: Json.wire); checked dynamically on every case, assumed in the theorems",
        "the harness's own field-wise build/dump of OrangeInput (independent of to_json/from_json; checked to be inverse on every case)",
    ]
    ctx.assumptions += [
        "doubles are modelled by their bit patterns; equality after the round trip is bitwise (finer than C++ ==)",
        "this build: size_type/logic_int are 64-bit (host-only), units cgs; constants checked against the harness",
        "wf (hypothesis of the main theorem): no NaN/inf outside bounding boxes, no bbox coordinate equal to +-DBL_MAX, "
        "bbox non-null or the canonical null, unit bbox non-null, logic non-empty with tokens in {face ids, * | & ~}, "
        "background volumes carry logic '* ~' and the null bbox, OBZ absent (dropped by the codec), labels split "
        "unambiguously at '@', surface_labels empty or one per surface, daughter map sorted by key (std::map), "
        "rect-array daughters untransformed or non-zero translations, grids >= 2 points, tolerance valid and finite, "
        "no involute surface (reader hits CELER_ASSERT_UNREACHABLE)",
    ]
    # 1. translator: keys used by the source -> coq/Generated/C19_keys.v
    gen_v = os.path.join(vlib.COQDIR, "Generated", "C19_keys.v")
    try:
        tr = json_keys.generate(vlib.REPO, gen_v)
    except Exception as e:   # unrecognised source shape must be a broken tie, not a crash
        tr = {"keys": {}, "problems": ["translator raised %s: %s" % (type(e).__name__, e)]}
        empty = {"keys": {}, "names": [], "arity": [], "visit": [], "logic_chars": "", "tok_order": [],
                 "logic_read": [], "zorder_write": [], "zorder_read": [], "transform_sizes": []}
        os.makedirs(os.path.dirname(gen_v), exist_ok=True)
        with open(gen_v, "w") as f:
            f.write(json_keys.render(empty))
    ctx.coverage["translator"] = {"structs": sorted(tr["keys"]), "problems": tr["problems"]}
    if tr["problems"]:
        ctx.violation("tie-broken", "translators/json_keys.py no longer recognises the source shape: %s" % "; ".join(tr["problems"])[:300],
                      {"problems": tr["problems"]}, no_input=True)

    # 2. proofs
    proofs_ok = ctx.coq_prove("Properties_C19.v")
    ok, log = ctx.coq_build(["C19/Run.vo", "C19/Reader.vo"])
    if not ok:
        ctx.violation("model-broken", "the executable model no longer compiles", {"log": log[-2000:]}, no_input=True)
        return

    # 3. harness on the real code
    ctx.build_libs(["orange"])
    exe = ctx.compile_harness([os.path.join(HERE, "harness", "roundtrip.cc")], "roundtrip",
                              libs=["orange", "geocel", "corecel"])
    mexe = ctx.ocaml_extract("C19/Extract.v", os.path.join(HERE, "harness", "driver.ml"), "c19model_exe", "c19model")
    ctx.trusted.append("Coq extraction to OCaml (ExtrOcamlBasic only) of the model's run_rt/run_dec, and harness/driver.ml (token reader, JSON printer)")
    check_consts(ctx, exe, mexe)

    found_input = False
    ndis = 0
    nrt = 0

    def report_dis(kind, what, replay):
        nonlocal ndis
        ndis += 1
        if ndis <= 6:
            ctx.violation(kind, what, replay, no_input=True)

    # 3a. bundled inputs (and anything in the corpus directory)
    files = sorted(glob.glob(os.path.join(vlib.REPO, "test", "orange", "data", "*.org.json")))
    files += sorted(glob.glob(os.path.join(HERE, "corpus", "*.org.json")))
    fcases = [{"id": i, "mode": "file", "path": p, "nav": 12 if quick else 200, "seed": ctx.seed} for i, p in enumerate(files)]
    fres = run_cases(ctx, exe, fcases)
    fexprs, fidx = [], []
    for c, res in zip(fcases, fres):
        name = os.path.basename(c["path"])
        ctx.count("bundled-file")
        bad = oracle_round_trip(res)
        nontriv = "x0" in res
        ctx.case("file:" + name, nontrivial=nontriv)
        if bad:
            involute = '"inv"' in open(c["path"]).read()
            found_input = True
            ctx.violation("round-trip", "%s: %s" % (name, bad),
                          {"file": c["path"], "observed": bad,
                           "how": "std::ifstream(file) >> inp; json j = inp; j.dump(0) -> parse -> get_to(inp2); compare field-wise"},
                          signature=SIG_INVOLUTE if (involute and "crash" in res) else None)
        if "x0" in res and L.representable(res["x0"]):
            fexprs.append(L.t_input(res["x0"]))
            fidx.append((name, res))
        if "nav1" in res:
            ctx.count("nav-rays", len(res["nav1"]))
            ctx.count("nav-steps", sum(len(r) for r in res["nav1"]))
    ctx.log("bundled files: %d (%d decodable)" % (len(files), len(fidx)))

    # 3b. generated inputs
    g = L.Gen(ctx.rng)
    gcases = []
    shapes_forced = ["uur", "uuru", "urur"]
    for i in range(n_gen):
        odd = (i % 4 == 3)
        x = g.input(odd=odd, shape=shapes_forced[i % 3] if i < 6 else None)
        gcases.append(({"id": i, "mode": "rt", "x": x}, list(g.odd)))
    # one generated involute case: expected to crash the reader (finding)
    xi = g.input(shape="u")
    xi["universes"][0]["surfaces"].append({"t": L.SURF.index("inv"), "d": [L.bits(v) for v in (0.0, 0.0, 1.0, 0.5, 1.7, 4.3)]})
    if xi["universes"][0]["surface_labels"]:
        xi["universes"][0]["surface_labels"].append(["inv", ""])
    gcases.append(({"id": n_gen, "mode": "rt", "x": xi}, ["involute"] + list(g.odd)))
    # inputs as UnitProto builds them: an OBZ on every volume (C19_dec_enc_orange_input_obz:
    # exactly the OBZ is lost)
    for k in range(8 if quick else 60):
        xo = g.input(odd=False)
        nv = 0
        for u in xo["universes"]:
            if u["k"] == "unit":
                for v in u["volumes"]:
                    v["obz"] = {"inner": g.bbox("finite"), "outer": g.bbox("finite"), "tid": ctx.rng.randrange(5)}
                    nv += 1
        if nv:
            gcases.append(({"id": len(gcases), "mode": "rt", "x": xo}, ["obz-all"]))
    gres = run_cases(ctx, exe, [c for c, _ in gcases])
    gexprs = [L.t_input(c["x"]) for c, _ in gcases]

    mvals = [mv_of(o) for o in model_eval(ctx, mexe, fexprs + gexprs)]
    fm, gm = mvals[:len(fexprs)], mvals[len(fexprs):]

    # bundled files against the model
    for (name, res), mv in zip(fidx, fm):
        dis = compare_with_model(res, mv)
        if not mv[0]:
            ctx.count("file-outside-wf")
            ctx.notes.append("bundled %s: wf = false (outside the theorem's hypothesis)" % name)
        if dis:
            report_dis("correspondence", "%s: %s" % (name, dis[0]), {"file": name, "disagreements": dis})
        elif mv[0] and oracle_round_trip({k: v for k, v in res.items() if not k.startswith("nav")}):
            pass  # already reported by the oracle above

    # generated inputs
    leg_sources = []
    for (c, odd), res, mv in zip(gcases, gres, gm):
        x = c["x"]
        for o in (odd or ["wf-intended"]):
            ctx.count("gen:" + o)
        if res.get("x0") != x and "crash" not in res and "harness_err" not in res:
            raise RuntimeError("harness build/dump is not the identity on case %d: %s" % (c["id"], L.first_diff(x, res.get("x0"))))
        wfb = bool(mv[0])
        ctx.count("model-wf" if wfb else "model-not-wf")
        bad = oracle_round_trip(res)
        ctx.case(x, nontrivial=("x2" in res))
        ctx.sample({"odd": odd, "universes": [u["k"] for u in x["universes"]], "model_wf": wfb,
                    "impl_round_trip": bad or "equal"})
        if bad and (wfb or "crash" in res):
            # a concrete failing input inside the theorem's domain (or UB)
            found_input = True
            nrt += 1
            if nrt > 5 and not (has_involute(x) and "crash" in res):
                continue
            ctx.violation("round-trip", "generated input does not survive the JSON round trip: %s" % bad,
                          {"input_D_form": x, "observed": bad, "model_wf": wfb, "oddities": odd,
                           "gallina": L.g_input(x)},
                          signature=SIG_INVOLUTE if (has_involute(x) and "crash" in res) else None)
        if odd and all(o in ("obz", "obz-all") for o in odd):
            # oracle for the OBZ theorem on the implementation: everything but the OBZ survives
            xd = json.loads(json.dumps(x))
            for u in xd["universes"]:
                if u["k"] == "unit":
                    for v in u["volumes"]:
                        v["obz"] = None
            if res.get("x2") != xd:
                found_input = True
                ctx.violation("round-trip", "input with OBZ: more than the OBZ is lost in the JSON round trip: %s" % (
                    L.first_diff(xd, res.get("x2")) if "x2" in res else (bad or "no result")),
                    {"input_D_form": x, "observed": bad, "gallina": L.g_input(x)})
            else:
                ctx.count("obz-exactly-lost")
        if not bad and not wfb:
            ctx.count("survives-although-not-wf")
        dis = compare_with_model(res, mv)
        if dis:
            report_dis("correspondence", "model and implementation differ: %s" % dis[0],
                       {"input_D_form": x, "disagreements": dis, "oddities": odd,
                        "theorem": "Properties_C19.v is about a model that no longer matches the code"})
        elif "j" in res and len(leg_sources) < n_leg:
            leg_sources.append(res["j"])

    # 3c. decoder-only cases: legacy spellings and missing optional keys
    lcases, lexprs, lwhat = [], [], []
    for i, tj in enumerate(leg_sources):
        j, what = legacy_variants(ctx.rng, tj)
        lcases.append({"id": i, "mode": "dec", "j": j})
        lexprs.append(L.t_dec(j))
        lwhat.append(what)
    lres = run_cases(ctx, exe, lcases)
    lm = [o["dec"] for o in model_eval(ctx, mexe, lexprs)]
    for c, what, res, mv in zip(lcases, lwhat, lres, lm):
        for w in (what or ["unchanged"]):
            ctx.count("legacy:" + w)
        ctx.case(c["j"], nontrivial=("x2" in res))
        if "crash" in res or "harness_err" in res:
            report_dis("correspondence", "reader crashed on a legacy-spelling document", {"json": c["j"], "what": what, "res": res})
            continue
        impl = res.get("x2")
        model = L.m_json(mv, "D") if mv is not None else None
        if impl != model:
            d = ("from_json threw: %s" % res.get("dec_err", "")[:100]) if impl is None else (
                "model rejects" if model is None else str(L.first_diff(impl, model)))
            report_dis("correspondence", "reader and model dec differ on a legacy-spelling document (%s): %s" % (",".join(what), d),
                       {"json": c["j"], "variation": what, "impl": impl, "model": model})


    # 3d. reader side / orange-update (app/orange-update.cc): every document the
    # reader accepts, two passes of the real tool vs the model's update_file,
    # oracle: second pass is a fixed point unless the decoded input is one of
    # the exceptions (rx_input = false)
    n_upd = 260 if quick else 3000
    ucases, uexprs, uwhat = [], [], []
    pool = leg_sources or []
    for i in range(min(n_upd, 8 * len(pool)) if pool else 0):
        tj = pool[ctx.rng.randrange(len(pool))]
        if ctx.rng.random() < 0.35:
            tj, w0 = legacy_variants(ctx.rng, tj)
            w0 = ["legacy"] if w0 else []
        else:
            w0 = []
        j, what = reader_variants(ctx.rng, tj)
        j = py_wire(j)     # a parsed document contains no non-finite number
        ucases.append({"id": i, "mode": "update", "j": j})
        uexprs.append(t_upd(j))
        uwhat.append(w0 + what)
    ures = run_cases(ctx, exe, ucases)
    umod = model_eval(ctx, mexe, uexprs)
    ustats = {"rx": 0, "bad": 0, "exception": 0, "exception_survives": 0, "rejected": 0}
    for c, what, res, mo in zip(ucases, uwhat, ures, umod):
        check_update_case(ctx, c, what, res, mo, report_dis, ustats)
    # bundled files through the real tool, twice
    ufcases = [{"id": i, "mode": "updfile", "path": p} for i, p in enumerate(files)]
    ufres = run_cases(ctx, exe, ufcases)
    for c, res in zip(ufcases, ufres):
        name = os.path.basename(c["path"])
        ctx.case("updfile:" + name, nontrivial=("j1" in res))
        involute = '"inv"' in open(c["path"]).read()
        if "crash" in res:
            if not involute:
                ctx.violation("round-trip", "orange-update crashes on bundled %s" % name, {"file": c["path"]})
            continue   # the involute crash is reported once, by the round-trip stage
        if "err1" in res:
            ctx.notes.append("orange-update rejects bundled %s: %s" % (name, res["err1"][:120]))
            ctx.count("updfile-rejected")
            continue
        ctx.count("updfile-accepted")
        if not (res.get("fixed") and res.get("x1") == res.get("x2")):
            ctx.violation("round-trip", "orange-update on bundled %s: second pass is not a fixed point: %s" % (
                name, res.get("err2") or L.first_diff(res.get("x1"), res.get("x2")) or "text differs"),
                {"file": c["path"], "how": "orange-update f a; orange-update a b; cmp a b", "err2": res.get("err2")})
    ctx.coverage["orange_update"] = dict(ustats, documents=len(ucases), bundled=len(ufcases))
    ctx.log("orange-update: %d documents (%d outside the exceptions, %d exceptions, %d rejected), %d bundled files" % (
        len(ucases), ustats["rx"], ustats["exception"], ustats["rejected"], len(ufcases)))

    found_input = any(not v["no_input"] for v in ctx.violations)   # known findings do not count
    if not proofs_ok and not found_input:
        ctx.violation("proof-broken", "Properties_C19.v no longer checks", ctx.broken_proof, no_input=True)
    elif not proofs_ok:
        ctx.notes.append("proof broken: %s" % json.dumps(ctx.broken_proof)[:1500])
    ctx.coverage["rule"] = ("cases = bundled .org.json files (read, written, re-read, traced) + generated OrangeInput structs "
                            "(1/4 with one deliberate departure from wf) + decoder-only documents with legacy key spellings; "
                            "all random choices from VERIF_SEED; non-trivial = the implementation produced a re-read input; "
                            "distinct by full input")
    ctx.coverage["traces_validated_against_impl"] = len(fidx) + len(gcases) + len(lcases) + len(ucases) + len(ufcases)
    ctx.coverage["disagreements"] = ndis
    ctx.coverage["generated_inputs_failing_round_trip"] = nrt
