"""C19 helpers: generator of abstract ORANGE inputs (the field-wise "D" form
shared with harness/roundtrip.cc), rendering to Gallina, conversion of model
output back to Python trees."""
import math
import struct

UINT = 1 << 64
LBEGIN = UINT - 7
LOPEN, LCLOSE, LTRUE, LOR, LAND, LNOT, LEND = [LBEGIN + i for i in range(7)]
INVALID_ID = UINT - 1

SURF = ["px", "py", "pz", "cxc", "cyc", "czc", "sc", "cx", "cy", "cz", "p", "s",
        "kx", "ky", "kz", "sq", "gq", "inv"]
ARITY = {"px": 1, "py": 1, "pz": 1, "cxc": 1, "cyc": 1, "czc": 1, "sc": 1, "cx": 3, "cy": 3,
         "cz": 3, "p": 4, "s": 4, "kx": 4, "ky": 4, "kz": 4, "sq": 7, "gq": 10, "inv": 6}
ZORD = {0: "ZInvalid", 1: "ZBackground", 2: "ZMedia", 3: "ZArray", 4: "ZHole",
        UINT - 2: "ZImplExt", UINT - 1: "ZExterior"}

INF = float("inf")
DBL_MAX = 1.7976931348623157e308


def bits(x):
    return "%016x" % struct.unpack("<Q", struct.pack("<d", x))[0]


def unbits(h):
    return struct.unpack("<d", struct.pack("<Q", int(h, 16)))[0]


NULL_BBOX = [[bits(INF)] * 3, [bits(-INF)] * 3]
INF_BBOX = [[bits(-INF)] * 3, [bits(INF)] * 3]

# ---------------------------------------------------------------------------
# generator


class Gen:
    """Structured random inputs. `odd` collects the deliberate departures from
    well-formedness injected into a case (empty = intended to be wf)."""

    def __init__(self, rng):
        self.r = rng
        self.odd = []
        self.allow_odd = False

    def p(self, q):
        return self.r.random() < q

    def real(self):
        r = self.r
        c = r.random()
        if c < 0.35:
            return float(r.randint(-20, 20))
        if c < 0.7:
            return r.uniform(-50, 50)
        if c < 0.8:
            return r.choice([0.0, -0.0, 0.5, -0.25, 1.0, 1e-5, 1e-300, -1e300, 5e-324, 0.1, 1 / 3.0,
                             math.pi, 2.0 ** 53, 1.7976931348623155e308])
        return r.uniform(-1, 1) * 10 ** r.uniform(-12, 12)

    def reals(self, n):
        return [bits(self.real()) for _ in range(n)]

    def name(self, allow_at=False):
        r = self.r
        alphabet = "abcXYZ019_.+-[] :/"
        s = "".join(r.choice(alphabet) for _ in range(r.choice([0, 1, 1, 3, 6, 12])))
        if allow_at and self.p(0.3):
            k = r.randint(0, len(s))
            s = s[:k] + "@" + s[k:]
        return s

    def label(self, odd_ok=True):
        r = self.r
        c = r.random()
        if c < 0.45:
            return [self.name() or "n", ""]
        if c < 0.8:
            return [self.name(allow_at=True), self.name() or "e"]   # '@' in name is fine when ext is not empty
        if c < 0.9:
            return ["", ""]
        if odd_ok and self.allow_odd and self.p(0.3):
            self.odd.append("label")
            return r.choice([["a@b", ""], ["x", "e@f"], ["@", ""], ["n", "@"]])
        return [self.name() or "q", "0x7f"]

    def bbox(self, kind=None):
        r = self.r
        kind = kind or r.choice(["finite", "finite", "finite", "semi", "inf", "null", "degenerate"])
        if kind == "inf":
            return [list(INF_BBOX[0]), list(INF_BBOX[1])]
        if kind == "null":
            return [list(NULL_BBOX[0]), list(NULL_BBOX[1])]
        lo, hi = [], []
        for _ in range(3):
            a = self.real()
            b = a + abs(self.real()) if kind != "degenerate" else a
            if b == INF or b != b:
                b = a
            if kind == "semi":
                if self.p(0.3):
                    a = -INF
                if self.p(0.3):
                    b = INF
            lo.append(a + 0.0)
            hi.append(b + 0.0)
        return [[bits(x) for x in lo], [bits(x) for x in hi]]

    def odd_bbox(self):
        r = self.r
        k = r.choice(["max", "nan", "noncanon-null", "-max"])
        self.odd.append("bbox-" + k)
        b = self.bbox("finite")
        ax = r.randrange(3)
        if k == "max":
            b[1][ax] = bits(DBL_MAX)
        elif k == "-max":
            b[0][ax] = bits(-DBL_MAX)
        elif k == "nan":
            b[r.randrange(2)][ax] = bits(float("nan"))
        else:
            b[0][ax] = bits(5.0)
            b[1][ax] = bits(-5.0)
        return b

    def transform(self, kinds=(0, 1, 2), zero_ok=True):
        r = self.r
        k = r.choice(kinds)
        if k == 0:
            return {"k": 0, "d": []}
        if k == 1:
            d = self.reals(3)
            if zero_ok and self.p(0.15):
                d = [bits(r.choice([0.0, -0.0])) for _ in range(3)]   # all-zero translation
            return {"k": 1, "d": d}
        return {"k": 2, "d": self.reals(12)}

    def logic(self, nsurf):
        r = self.r
        n = r.choice([1, 2, 3, 5, 9, 20])
        out = []
        for _ in range(n):
            c = r.random()
            if c < 0.5:
                out.append(r.choice([r.randrange(max(1, nsurf)), r.randrange(0, 12), 0, 9, 10, 99, 100,
                                     4294967295, 4294967296, LBEGIN - 1, r.randrange(0, LBEGIN)]))
            else:
                out.append(r.choice([LTRUE, LOR, LAND, LNOT, LNOT, LAND]))
        return out

    def volume(self, nsurf):
        r = self.r
        zorder = r.choice([2, 2, 2, 2, 3, 4, UINT - 2, UINT - 1, 1, 0])
        v = {"label": self.label(), "faces": sorted(set(r.randrange(max(1, nsurf)) for _ in range(r.choice([0, 1, 3, 6])))),
             "logic": self.logic(nsurf), "bbox": self.bbox(), "obz": None,
             "flags": r.choice([0, 0, 1, 2, 3, 7, 255]), "zorder": zorder}
        if self.p(0.05):
            v["faces"].append(INVALID_ID)
        if zorder == 1:
            if not self.allow_odd or self.p(0.5):
                v["logic"] = [LTRUE, LNOT]
                v["bbox"] = [list(NULL_BBOX[0]), list(NULL_BBOX[1])]
            else:
                self.odd.append("background-noncanonical")
        return v

    def odd_volume(self, v):
        r = self.r
        k = r.choice(["paren", "empty-logic", "obz", "bbox", "bbox"])
        if k == "paren":
            self.odd.append("logic-paren")
            v["logic"].insert(r.randrange(len(v["logic"]) + 1), r.choice([LOPEN, LCLOSE]))
        elif k == "empty-logic":
            self.odd.append("logic-empty")
            v["logic"] = []
        elif k == "obz":
            self.odd.append("obz")
            v["obz"] = {"inner": self.bbox("finite"), "outer": self.bbox("finite"), "tid": r.randrange(5)}
        else:
            v["bbox"] = self.odd_bbox()

    def surfaces(self):
        r = self.r
        c = r.random()
        if c < 0.15:
            types = []
        elif c < 0.3:
            types = SURF[:-1]
            r.shuffle(types)
        else:
            types = [r.choice(SURF[:-1]) for _ in range(r.choice([1, 2, 4, 7]))]
        return [{"t": SURF.index(t), "d": self.reals(ARITY[t])} for t in types]

    def unit(self, oddity):
        r = self.r
        ss = self.surfaces()
        vols = [self.volume(len(ss)) for _ in range(r.choice([1, 1, 2, 3, 5]))]
        u = {"k": "unit", "label": self.label(), "surfaces": ss, "volumes": vols,
             "bbox": self.bbox(r.choice(["finite", "finite", "semi", "inf", "degenerate"])),
             "daughters": [], "surface_labels": []}
        if self.p(0.6):
            u["surface_labels"] = [self.label() for _ in ss]
        keys = sorted(set(r.randrange(len(vols) + 2) for _ in range(r.choice([0, 0, 1, 2, 4]))))
        u["daughters"] = [[k, r.choice([0, 1, 2, 3, 17, INVALID_ID]), self.transform()] for k in keys]
        if oddity:
            k = r.choice(["volume", "volume", "null-unit-bbox", "surface-nan", "surface-inf", "slabels-size",
                          "transform-inf", "unit-bbox"])
            if k == "volume":
                self.odd_volume(r.choice(vols))
            elif k == "null-unit-bbox":
                self.odd.append(k)
                u["bbox"] = [list(NULL_BBOX[0]), list(NULL_BBOX[1])]
            elif k == "unit-bbox":
                u["bbox"] = self.odd_bbox()
            elif k in ("surface-nan", "surface-inf") and ss:
                self.odd.append(k)
                s = r.choice(ss)
                s["d"][r.randrange(len(s["d"]))] = bits(float("nan") if k == "surface-nan" else r.choice([INF, -INF]))
            elif k == "slabels-size" and ss:
                self.odd.append(k)
                u["surface_labels"] = [self.label(False) for _ in range(len(ss) + r.choice([-1, 1, 2]))]
                if not u["surface_labels"]:
                    u["surface_labels"] = [["a", ""], ["b", ""]] if len(ss) != 2 else [["a", ""]]
            elif k == "transform-inf" and u["daughters"]:
                d = r.choice(u["daughters"])
                if d[2]["d"]:
                    self.odd.append(k)
                    d[2]["d"][r.randrange(len(d[2]["d"]))] = bits(r.choice([INF, float("nan")]))
        return u

    def grid(self):
        r = self.r
        n = r.choice([2, 2, 3, 5])
        x = self.real()
        if abs(x) > 1e300:
            x = 0.0
        g = [x]
        for _ in range(n - 1):
            g.append(g[-1] + abs(r.uniform(0.1, 5)))
        return [bits(v) for v in g]

    def rect(self, oddity):
        r = self.r
        a = {"k": "rect", "label": self.label(), "grid": [self.grid() for _ in range(3)], "daughters": []}
        n = r.choice([1, 2, 4, 8])
        for _ in range(n):
            t = self.transform((0, 1, 1), zero_ok=oddity)
            if t["k"] == 1 and all(unbits(h) == 0 for h in t["d"]):
                self.odd.append("rect-zero-translation")
            a["daughters"].append([r.choice([0, 1, 2, 5]), t])
        if oddity:
            k = r.choice(["transformation", "short-grid", "grid-inf", "transl-inf"])
            if k == "transformation":
                self.odd.append("rect-transformation")
                a["daughters"][r.randrange(n)][1] = self.transform((2,))
            elif k == "short-grid":
                self.odd.append(k)
                a["grid"][r.randrange(3)] = self.reals(r.choice([0, 1]))
            elif k == "grid-inf":
                self.odd.append(k)
                a["grid"][r.randrange(3)][-1] = bits(INF)
            else:
                d = [x for x in a["daughters"] if x[1]["k"] == 1]
                if d:
                    self.odd.append(k)
                    r.choice(d)[1]["d"][r.randrange(3)] = bits(r.choice([INF, float("nan")]))
        return a

    def tol(self, oddity):
        r = self.r
        if oddity:
            self.odd.append("tol")
            return r.choice([[bits(0.0), bits(0.0)], [bits(1.0), bits(1e-5)], [bits(1e-5), bits(-1.0)],
                             [bits(1e-5), bits(INF)], [bits(float("nan")), bits(1e-8)], [bits(-1e-3), bits(1e-8)],
                             [bits(1e-5), bits(0.0)], [bits(1.5), bits(1.0)]])
        rel = r.choice([1e-5, 1.5e-8, 0.5, 1 - 2.0 ** -53, 5e-324, 10 ** r.uniform(-12, -1)])
        ab = r.choice([1e-5, 1.5e-8, 1.0, 1e300, 5e-324, 10 ** r.uniform(-12, 3)])
        return [bits(rel), bits(ab)]

    def input(self, odd=False, shape=None):
        r = self.r
        self.odd = []
        self.allow_odd = odd
        shape = shape or r.choice(["u", "u", "uu", "uur", "ur", "r", "uuru", "urur"])
        where = r.randrange(len(shape) + 1) if odd else -1
        us = []
        for i, c in enumerate(shape):
            us.append(self.unit(i == where) if c == "u" else self.rect(i == where))
        return {"universes": us, "tol": self.tol(where == len(shape))}


# ---------------------------------------------------------------------------
# D form -> Gallina

def gstr(s):
    return '"' + s.replace('"', '""') + '"'


def gz(n):
    """Z literal as raw binary constructors (Coq's decimal number notation
    takes tens of milliseconds per 20-digit literal; this is instantaneous)."""
    if n == 0:
        return "Z0"
    s = "xH"
    for c in bin(abs(n))[3:]:
        s = "(%s %s)" % ("xI" if c == "1" else "xO", s)
    return "(%s %s)" % ("Zneg" if n < 0 else "Zpos", s)


def gfl(h):
    return gz(int(h, 16))


def glist(xs):
    return "[" + "; ".join(xs) + "]"


def g_label(l):
    return "(mkLabel %s %s)" % (gstr(l[0]), gstr(l[1]))


def g_vec3(v):
    return "(%s, %s, %s)" % tuple(gfl(h) for h in v)


def g_bbox(b):
    return "(mkBBox %s %s)" % (g_vec3(b[0]), g_vec3(b[1]))


def g_transform(t):
    d = t["d"]
    if t["k"] == 0:
        return "NoTrans"
    if t["k"] == 1:
        return "(Transl %s)" % g_vec3(d)
    return "(Transf %s %s %s %s)" % (g_vec3(d[0:3]), g_vec3(d[3:6]), g_vec3(d[6:9]), g_vec3(d[9:12]))


def g_volume(v):
    obz = "None" if v["obz"] is None else "(Some (mkObz %s %s %s))" % (
        g_bbox(v["obz"]["inner"]), g_bbox(v["obz"]["outer"]), gz(v["obz"]["tid"]))
    return "(mkVolume %s %s %s %s %s %s %s)" % (
        g_label(v["label"]), glist(gz(f) for f in v["faces"]), glist(gz(t) for t in v["logic"]),
        g_bbox(v["bbox"]), obz, gz(v["flags"]), ZORD[v["zorder"]])


def g_universe(u):
    if u["k"] == "unit":
        return "(UUnit (mkUnit %s %s %s %s %s %s))" % (
            glist("(mkSurf S%s %s)" % (SURF[s["t"]], glist(gfl(h) for h in s["d"])) for s in u["surfaces"]),
            glist(g_volume(v) for v in u["volumes"]), g_bbox(u["bbox"]),
            glist("(%s, mkDaughter %s %s)" % (gz(d[0]), gz(d[1]), g_transform(d[2])) for d in u["daughters"]),
            glist(g_label(l) for l in u["surface_labels"]), g_label(u["label"]))
    return "(URect (mkRect (%s, %s, %s) %s %s))" % (
        *[glist(gfl(h) for h in g) for g in u["grid"]],
        glist("(mkDaughter %s %s)" % (gz(d[0]), g_transform(d[1])) for d in u["daughters"]),
        g_label(u["label"]))


def g_input(x):
    return "(mkInput %s (mkTol %s %s))" % (glist(g_universe(u) for u in x["universes"]),
                                           gfl(x["tol"][0]), gfl(x["tol"][1]))


def representable(x):
    """Can this D form be written as a model term? (zorder outside the enum cannot)"""
    for u in x["universes"]:
        if u["k"] == "unit":
            for v in u["volumes"]:
                if v["zorder"] not in ZORD:
                    return False
            for s in u["surfaces"]:
                if not (0 <= s["t"] < len(SURF)):
                    return False
    return True


# ---------------------------------------------------------------------------
# tagged JSON tree -> Gallina json term

def g_json(t):
    if t is None:
        return "JNull"
    if isinstance(t, bool):
        return "(JBool %s)" % ("true" if t else "false")
    if isinstance(t, int):
        return "(JInt %s)" % gz(t)
    if isinstance(t, str):
        if t.startswith("#f"):
            return "(JFlt %s)" % gz(int(t[2:], 16))
        return "(JStr %s)" % gstr(t[2:])
    if isinstance(t, list):
        return "(JArr %s)" % glist(g_json(e) for e in t)
    if isinstance(t, dict):
        return "(JObj %s)" % glist("(%s, %s)" % (gstr(k), g_json(v)) for k, v in t.items())
    raise ValueError(t)


# ---------------------------------------------------------------------------
# D form / tagged JSON -> token stream for the extracted model (harness/driver.ml)

def t_int(n):
    return ("-x%x" % -n) if n < 0 else ("x%x" % n)


def t_str(s):
    return "s" + s.encode("latin-1").hex()


def t_label(l):
    return [t_str(l[0]), t_str(l[1])]


def t_bbox(b):
    return list(b[0]) + list(b[1])


def t_transform(t):
    return [str(t["k"])] + list(t["d"])


def t_volume(v):
    out = t_label(v["label"]) + [str(len(v["faces"]))] + [t_int(f) for f in v["faces"]]
    out += [str(len(v["logic"]))] + [t_int(t) for t in v["logic"]] + t_bbox(v["bbox"])
    if v["obz"] is None:
        out.append("N")
    else:
        out += ["O"] + t_bbox(v["obz"]["inner"]) + t_bbox(v["obz"]["outer"]) + [t_int(v["obz"]["tid"])]
    out += [t_int(v["flags"]), ZORD[v["zorder"]]]
    return out


def t_universe(u):
    if u["k"] == "unit":
        out = ["U"] + t_label(u["label"]) + [str(len(u["surfaces"]))]
        for s in u["surfaces"]:
            out += [str(s["t"]), str(len(s["d"]))] + list(s["d"])
        out.append(str(len(u["volumes"])))
        for v in u["volumes"]:
            out += t_volume(v)
        out += t_bbox(u["bbox"]) + [str(len(u["daughters"]))]
        for d in u["daughters"]:
            out += [t_int(d[0]), t_int(d[1])] + t_transform(d[2])
        out.append(str(len(u["surface_labels"])))
        for l in u["surface_labels"]:
            out += t_label(l)
        return out
    out = ["R"] + t_label(u["label"])
    for g in u["grid"]:
        out += [str(len(g))] + list(g)
    out.append(str(len(u["daughters"])))
    for d in u["daughters"]:
        out += [t_int(d[0])] + t_transform(d[1])
    return out


def t_input(x):
    out = ["RT", str(len(x["universes"]))]
    for u in x["universes"]:
        out += t_universe(u)
    return " ".join(out + list(x["tol"]))


def t_json(t, out):
    if t is None:
        out.append("n")
    elif isinstance(t, bool):
        out.append("t" if t else "f")
    elif isinstance(t, int):
        out += ["i", t_int(t)]
    elif isinstance(t, str):
        if t.startswith("#f"):
            out += ["d", t[2:]]
        else:
            out += ["s", t_str(t[2:])]
    elif isinstance(t, list):
        out += ["a", str(len(t))]
        for e in t:
            t_json(e, out)
    else:
        out += ["o", str(len(t))]
        for k, v in t.items():
            out.append(t_str(k))
            t_json(v, out)
    return out


def t_dec(j):
    return " ".join(t_json(j, ["DEC"]))


# ---------------------------------------------------------------------------
# model output (tagged JSON printed by driver.ml) -> Python

def m_json(v, mode):
    """mode 'T': tagged tree (floats '#f<bits>', strings '#s<text>', ints as int);
    mode 'D': dump form (floats as 16 hex digits, strings plain)."""
    if isinstance(v, str):
        if v.startswith("#i"):
            return int(v[2:], 16)
        if v.startswith("#f"):
            return v if mode == "T" else v[2:]
        return v if mode == "T" else v[2:]
    if isinstance(v, list):
        return [m_json(e, mode) for e in v]
    if isinstance(v, dict):
        return {k: m_json(e, mode) for k, e in v.items()}
    return v


def first_diff(a, b, path=""):
    """first path at which two trees differ (for reports)"""
    if type(a) != type(b):
        return "%s: %r vs %r" % (path, a if not isinstance(a, (dict, list)) else type(a).__name__,
                                  b if not isinstance(b, (dict, list)) else type(b).__name__)
    if isinstance(a, dict):
        for k in sorted(set(a) | set(b)):
            if k not in a:
                return "%s.%s: missing on the left" % (path, k)
            if k not in b:
                return "%s.%s: missing on the right" % (path, k)
            d = first_diff(a[k], b[k], path + "." + k)
            if d:
                return d
        return None
    if isinstance(a, list):
        if len(a) != len(b):
            return "%s: length %d vs %d" % (path, len(a), len(b))
        for i, (x, y) in enumerate(zip(a, b)):
            d = first_diff(x, y, "%s[%d]" % (path, i))
            if d:
                return d
        return None
    return None if a == b else "%s: %r vs %r" % (path, a, b)
