"""C18 tie for the scalar helpers of corecel/math/Algorithms.hh (clamp, clamp_to_nonneg,
min/max, fastpow, fma, negate, diffsq, eumod, signum, rsqrt, ceil_div, ipow on unsigned).

Model: coq/C18/Math.v through coq/C18/RunM.v (binary64 by vm_compute, integers over Z with
explicit mod 2^w); implementation: harness/mathx.cc.  Property oracle: exact rationals.
"""
import math, os
from fractions import Fraction
import vlib
from vlib import hexf, close

HERE = os.path.dirname(os.path.abspath(__file__))
PRE = ("From Coq Require Import ZArith List Floats.\n"
       "From Celer Require Import Base.Num Base.NumF C18.Algorithms C18.Math C18.RunM.\n"
       "Import ListNotations.\nOpen Scope float_scope.\n")
NAN, INF = float("nan"), math.inf


def hx(x):
    return "nan" if x != x else float(x).hex()


def pf(tok):
    return float(tok) if tok in ("nan", "inf", "-inf") else float.fromhex(tok)


def Z(x):
    return "(%d)%%Z" % x


def same(a, b, rtol=0.0):
    """float agreement including NaN-ness (the sign of a zero is lost by vlib's parser of Coq
    values; negate carries its sign bit explicitly)"""
    if a != a or b != b:
        return a != a and b != b
    return close(a, b, rtol=rtol) if rtol else a == b


def gen(ctx):
    r = ctx.rng
    spec = [0.0, -0.0, 1.0, -1.0, 0.5, 2.0, 3.0, 1e-300, -1e-300, 1e300, -1e300, INF, -INF, NAN, 5e-324, -5e-324]
    fin = [x for x in spec if x == x and abs(x) != INF]

    def rnd():
        k = r.randrange(4)
        if k == 0:
            return r.uniform(-10, 10)
        if k == 1:
            return r.choice([-1, 1]) * 10 ** r.uniform(-12, 12)
        if k == 2:
            return float(r.randrange(-5, 6))
        return r.choice(spec)

    C = []   # (kind, harness line, expr builder (given impl tokens) , info)
    def f(kind, args, fn):
        C.append((kind, kind + " " + " ".join(hx(a) for a in args), lambda impl, ref, a=args, fn=fn: fn + " " + " ".join(hexf(x) for x in a), args))
    for _ in range(100):
        lo, hi = sorted([r.choice(fin + [INF, -INF]) if r.random() < 0.3 else r.uniform(-5, 5) for _ in range(2)])
        v = r.choice([lo, hi, math.nextafter(lo, -INF), math.nextafter(hi, INF), rnd(), rnd()])
        if lo == 0 and hi == 0:
            lo = hi = 0.0
        f("clamp", (v, lo, hi), "run_clamp")
    # extreme value admitted by CELER_EXPECT(!(hi < lo)): lo == hi
    for b_ in (0.0, 1.0, -2.5, 1e300, 5e-324):
        for v in (b_, math.nextafter(b_, INF), math.nextafter(b_, -INF), 7.0, -7.0):
            f("clamp", (v, b_, b_), "run_clamp")
            ctx.count("edge:clamp lo==hi")
    for v in spec + [rnd() for _ in range(40)]:
        f("nonneg", (v,), "run_nonneg")
        f("negate", (v,), "run_negate")
        f("signum", (v,), "run_signum")
    for _ in range(100):
        a, b = rnd(), rnd()
        if a == 0 and b == 0:
            b = a
        f("fmin", (a, b), "run_fmin")
        f("fmax", (a, b), "run_fmax")
    for _ in range(100):
        a = r.choice([1.0, 2.0, 0.5, 10 ** r.uniform(-3, 3), r.uniform(0.1, 3), math.nextafter(1.0, 2.0), 5e-324, 1e300])
        b = r.choice([0.0, 1.0, 2.0, -1.0, 0.5, r.uniform(-20, 20), float(r.randrange(-6, 7))])
        if abs(b * math.log(a)) < 300:
            f("fastpow", (a, b), "run_fastpow")
    for b in (1.0, 0.5, 3.0, 1e-300):
        C.append(("fastpow0", "fastpow %s %s" % (hx(0.0), hx(b)), None, (0.0, b)))
        ctx.count("edge:fastpow a==0")
    for _ in range(100):
        a, b = [r.choice([rnd(), r.uniform(-100, 100), 10 ** r.uniform(-100, 100)]) for _ in range(2)]
        if a != a or b != b or abs(a) > 1e150 or abs(b) > 1e150:
            continue
        if r.random() < 0.2:
            b = r.choice([a, -a, math.nextafter(a, INF)])
        f("diffsq", (a, b), "run_diffsq")
    for _ in range(150):
        d = r.choice([1.0, -1.0, 2 * math.pi, 360.0, -360.0, r.uniform(-10, 10), 10 ** r.uniform(-5, 5), -(10 ** r.uniform(-5, 5))])
        n = r.choice([r.uniform(-1000, 1000), d * r.randrange(-5, 6), -d, d, 0.0, -0.0, -2.0 ** -70, 2.0 ** -70,
                      -abs(d) * 2.0 ** -60, math.nextafter(0.0, -1.0), r.uniform(-1e6, 1e6), float(r.randrange(-720, 721))])
        if d == 0:
            continue
        C.append(("eumod", "eumod %s %s" % (hx(n), hx(d)),
                  lambda impl, ref, d=d: "run_eumod %s %s" % (hexf(pf(ref[0])), hexf(d)), (n, d)))
    for _ in range(60):
        x = r.choice([1.0, 4.0, 0.25, 2.0, 5e-324, 1e300, 1e-300, r.uniform(0, 10), 10 ** r.uniform(-300, 300), INF])
        if x > 0:
            f("rsqrt", (x,), "run_rsqrt")
    # integers
    L = 2 ** 63
    ipool = [-L, -1, 0, 1, L - 1] + [r.randrange(-100, 100) for _ in range(3)]
    for a in ipool:
        C.append(("int", "isignum %d" % a, lambda i, rf, a=a: "m_isignum %s" % Z(a), ("isignum", a)))
        for b in ipool:
            C.append(("int", "imin %d %d" % (a, b), lambda i, rf, a=a, b=b: "m_imin %s %s" % (Z(a), Z(b)), ("imin", a, b)))
            C.append(("int", "imax %d %d" % (a, b), lambda i, rf, a=a, b=b: "m_imax %s %s" % (Z(a), Z(b)), ("imax", a, b)))
    for _ in range(60):
        lo, hi = sorted([r.choice(ipool), r.choice(ipool)])
        v = r.choice(ipool + [lo, hi, max(lo - 1, -L), min(hi + 1, L - 1)])
        C.append(("int", "iclamp %d %d %d" % (v, lo, hi), lambda i, rf, v=v, lo=lo, hi=hi: "m_iclamp %s %s %s" % (Z(v), Z(lo), Z(hi)), ("iclamp", v, lo, hi)))
    for w in (32, 64):
        M = 2 ** w
        up = [0, 1, 2, 3, 2 ** (w // 2) - 1, 2 ** (w // 2), 2 ** (w // 2) + 1, 2 ** (w - 1), M - 2, M - 1]
        for _ in range(70):
            a, b, y = [r.choice(up + [r.randrange(M), r.randrange(1000)]) for _ in range(3)]
            C.append(("int", "fmau%d %d %d %d" % (w, a, b, y), lambda i, rf, w=w, a=a, b=b, y=y: "m_fma_u %d %s %s %s" % (w, Z(a), Z(b), Z(y)), ("fma", w, a, b, y)))
        for t in up + [r.randrange(M) for _ in range(3)]:
            for b in [1, 2, 7, M - 1, 2 ** (w - 1), r.randrange(1, M), r.randrange(1, 1000)]:
                C.append(("int", "cdivu%d %d %d" % (w, t, b), lambda i, rf, w=w, t=t, b=b: "m_ceil_div_u %d %s %s" % (w, Z(t), Z(b)), ("cdiv", w, t, b)))
    M = 2 ** 32
    up = [0, 1, 2, 3, 65535, 65536, 65537, 2 ** 31, M - 2, M - 1]
    for a in up + [r.randrange(M) for _ in range(4)]:
        C.append(("int", "negu32 %d" % a, lambda i, rf, a=a: "m_negate_u 32 %s" % Z(a), ("neg", 32, a)))
        for b in r.sample(up, 5) + [r.randrange(M)]:
            C.append(("int", "dsqu32 %d %d" % (a, b), lambda i, rf, a=a, b=b: "m_diffsq_u 32 %s %s" % (Z(a), Z(b)), ("dsq", 32, a, b)))
    for n in range(0, 41):
        for v in [0, 1, 2, 3, 10, 65536, M - 1, r.randrange(M)][n % 2::2] + [r.randrange(M)]:
            C.append(("int", "ipowu32 %d %d" % (n, v), lambda i, rf, n=n, v=v: "run_ipow_u 32 %d %s" % (n, Z(v)), ("ipow", 32, n, v)))
    return C


def oracle(kind, info, impl, ref):
    """the reference semantics, evaluated exactly, on the implementation's output"""
    if kind == "clamp":
        v, lo, hi = info
        y = pf(impl[0])
        if v == v:
            exp = min(hi, max(lo, v))
            if not (y == exp):
                return "clamp(%r, %r, %r) = %r, expected %r" % (v, lo, hi, y, exp)
        elif y == y:
            return "clamp(NaN, ...) = %r, expected NaN" % y
    elif kind == "nonneg":
        v, y = info[0], pf(impl[0])
        if (v != v) != (y != y) or (v == v and y != max(0.0, v)):
            return "clamp_to_nonneg(%r) = %r" % (v, y)
    elif kind in ("fmin", "fmax"):
        a, b = info
        y = pf(impl[0])
        vals = [x for x in (a, b) if x == x]
        exp = NAN if not vals else (min(vals) if kind == "fmin" else max(vals))
        if (exp != exp) != (y != y) or (exp == exp and y != exp):
            return "%s(%r, %r) = %r, expected %r (NaN operands are ignored)" % (kind, a, b, y, exp)
    elif kind in ("fastpow", "fastpow0"):
        a, b = info
        y = pf(impl[0])
        if a == 0:
            if y != 0:
                return "fastpow(0, %r) = %r, expected 0" % (b, y)
        else:
            exp = pf(ref[0])
            if not close(y, exp, rtol=1e-12 * (1 + abs(b * math.log(a))), atol=1e-320):
                return "fastpow(%r, %r) = %r differs from std::pow = %r" % (a, b, y, exp)
    elif kind == "negate":
        v, y = info[0], pf(impl[0])
        if v != v:
            return None if y != y else "negate(NaN) = %r" % y
        if y != -v or (y == 0 and math.copysign(1, y) < 0):
            return "negate(%r) = %r (must be -v and never -0)" % (v, hx(y))
    elif kind == "diffsq":
        a, b = info
        y = pf(impl[0])
        ex = Fraction(a) ** 2 - Fraction(b) ** 2
        if math.isfinite(y) and abs(Fraction(y) - ex) > Fraction(1, 10 ** 14) * abs(ex) + Fraction(5e-324):
            return "diffsq(%r, %r) = %r differs from a^2 - b^2 = %r" % (a, b, y, float(ex))
    elif kind == "eumod":
        n, d = info
        y = pf(impl[0])
        if not (0 <= y <= abs(d)):
            return "eumod(%r, %r) = %r is outside [0, |denom|]" % (n, d, y)
        q = (Fraction(n) - Fraction(y)) / Fraction(d)
        k = round(q)
        if abs(Fraction(n) - Fraction(y) - k * Fraction(d)) > Fraction(1e-12) * (abs(Fraction(d)) + abs(Fraction(n))):
            return "eumod(%r, %r) = %r is not congruent to the numerator modulo the denominator" % (n, d, y)
    elif kind == "signum":
        x, y = info[0], int(impl[0])
        exp = 0 if x != x else (x > 0) - (x < 0)
        if y != exp:
            return "signum(%r) = %d, expected %d" % (x, y, exp)
    elif kind == "rsqrt":
        x, y = info[0], pf(impl[0])
        exp = 0.0 if x == INF else 1 / math.sqrt(x)
        if not close(y, exp, rtol=1e-15):
            return "rsqrt(%r) = %r, expected %r" % (x, y, exp)
    elif kind == "int":
        y = int(impl[0])
        op = info[0]
        if op == "isignum":
            exp = (info[1] > 0) - (info[1] < 0)
        elif op == "imin":
            exp = min(info[1:])
        elif op == "imax":
            exp = max(info[1:])
        elif op == "iclamp":
            exp = min(info[3], max(info[2], info[1]))
        elif op == "fma":
            exp = (info[2] * info[3] + info[4]) % 2 ** info[1]
        elif op == "cdiv":
            exp = -(-info[2] // info[3])
        elif op == "neg":
            exp = (-info[2]) % 2 ** info[1]
        elif op == "dsq":
            exp = (info[2] ** 2 - info[3] ** 2) % 2 ** info[1]
        else:
            exp = pow(info[3], info[2], 2 ** info[1])
        if y != exp:
            return "%s%r = %d, expected %d (exact arithmetic modulo 2^w)" % (op, tuple(info[1:]), y, exp)
    return None


def run(ctx, batched_eval):
    exe = ctx.compile_harness([os.path.join(HERE, "harness", "mathx.cc")], "mathx")
    cases = gen(ctx)
    rc, out = ctx.run_harness(exe, input="".join(c[1] + "\n" for c in cases), timeout=300)
    lines = out.splitlines()
    if rc != 0 or len(lines) != len(cases):
        bad = cases[len(lines)][1] if len(lines) < len(cases) else "?"
        ctx.violation("oracle", "mathx harness died (rc=%d) at command '%s'" % (rc, bad), {"command": bad, "tail": out[-800:]})
        return 0
    toks = [(l.partition("|")[0].split(), l.partition("|")[2].split()) for l in lines]
    kex = []
    for (kind, line, mk, info), (impl, ref) in zip(cases, toks):
        if mk is not None:
            e = mk(impl, ref)
            kex.append((len(kex), kind + ":" + e.split()[0], e))
    mvals = batched_eval(ctx, "mathx", PRE, [(k, e) for _, k, e in kex], batch=120, files=2)
    mi = 0
    nviol = {}
    for (kind, line, mk, info), (impl, ref), il in zip(cases, toks, lines):
        mv = None
        if mk is not None:
            mv = mvals[mi]
            mi += 1
        sub = line.split()[0]
        if nviol.get(sub, 0) >= 2:
            continue
        ctx.count("math:" + sub)
        ctx.case(line, nontrivial=True)
        if ctx.evaluations % 499 == 0:
            ctx.sample({"command": line, "impl": il, "model": repr(mv)})
        msg = oracle(kind, info, impl, ref)
        if msg:
            nviol[sub] = nviol.get(sub, 0) + 1
            ctx.violation("oracle", msg, {"command": line, "implementation": il, "model": repr(mv)})
            continue
        if mk is None:
            continue
        if kind in ("signum", "int"):
            agree = int(impl[0]) == mv
        elif kind == "negate":
            y = pf(impl[0])
            agree = same(mv[0], y) and (y != 0 or mv[1] == (math.copysign(1, y) < 0))
        elif kind == "fastpow":
            a, b = info
            agree = close(mv, pf(impl[0]), rtol=1e-11 * (1 + abs(b * math.log(a))), atol=1e-320)
        else:
            agree = same(mv, pf(impl[0]))
        if not agree:
            nviol[sub] = nviol.get(sub, 0) + 1
            ctx.violation("correspondence", "scalar-helper model and implementation differ for '%s'" % sub,
                          {"command": line, "implementation": il, "model": repr(mv),
                           "theorem": "Properties_C18.v (Math theorems) is about a model that no longer matches the code"},
                          no_input=True)
    return len(cases)
