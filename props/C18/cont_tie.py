"""C18 tie for corecel/cont/Range.hh (+RangeImpl.hh) and corecel/cont/Span.hh (+SpanImpl.hh).

Model: coq/C18/RangeImpl.v, coq/C18/Span.v through coq/C18/RunC.v (vm_compute);
implementation: harness/cont.cc (real celeritas::range / count / Span templates).
The CELER_EXPECT conditions of Span's subviews are extracted from the header text
(they are compiled out in this build) and compiled into the harness.
"""
import os, re
from itertools import islice

HERE = os.path.dirname(os.path.abspath(__file__))
PRE = ("From Coq Require Import ZArith List Bool.\n"
       "From Celer Require Import C18.RangeImpl C18.Span C18.RunC.\n"
       "Import ListNotations.\nOpen Scope Z_scope.\n")

TYPES = {"i32": (0, 32, True), "u32": (1, 32, False), "i64": (2, 64, True), "u64": (3, 64, False)}
DYN = 2 ** 64 - 1


def lim(w, signed):
    return (-(2 ** (w - 1)), 2 ** (w - 1) - 1) if signed else (0, 2 ** w - 1)


def norm(w, signed, x):
    if signed:
        return (x + 2 ** (w - 1)) % 2 ** w - 2 ** (w - 1)
    return x % 2 ** w


def Z(x):
    return "(%d)" % x


# ---------------------------------------------------------------------------
# translator: the six CELER_EXPECTs of the subviews, in header order

def extract_span_pre(repo):
    src = open(os.path.join(repo, "src/corecel/cont/Span.hh")).read()
    m = re.search(r"\\name Subviews(.*?)//!@}", src, re.S)
    if not m:
        return None
    exprs = []
    body = m.group(1)
    for mm in re.finditer(r"CELER_EXPECT\(", body):
        i = mm.end()
        depth, j = 1, i
        while depth and j < len(body):
            depth += {"(": 1, ")": -1}.get(body[j], 0)
            j += 1
        exprs.append(" ".join(body[i:j - 1].split()))
    return exprs


def write_span_pre(ctx, repo):
    exprs = extract_span_pre(repo)
    ok = exprs is not None and len(exprs) == 6
    lines = ["// generated from src/corecel/cont/Span.hh by props/C18/cont_tie.py"]
    for k in range(6):
        e = exprs[k].replace("this->size()", "size_") if ok else "false"
        lines.append("static bool pre_%d(std::size_t size_, std::size_t o_, std::size_t c_)\n"
                     "{ std::size_t const Count = c_, count = c_, Offset = o_, offset = o_;\n"
                     "  (void)Count; (void)count; (void)Offset; (void)offset; (void)size_;\n"
                     "  return (%s); }" % (k, e))
    with open(os.path.join(ctx.work, "span_pre.inc"), "w") as f:
        f.write("\n".join(lines) + "\n")
    return ok, exprs


# ---------------------------------------------------------------------------
# python simulation of the stepped range, only used to detect signed overflow (UB in C++:
# such cases are not generated) and to know when the reference semantics applies

def sim_rstep(t, u_signed, a, b, s, cap):
    """returns (ub, exact): ub = a signed overflow (UB) happens in the C++ within cap+1
    iterations; exact = no unsigned wrap-around happened either (reference semantics applies)"""
    _, w, signed = TYPES[t]
    lo, hi = lim(w, signed)
    exact = True
    if u_signed:
        ct_signed = signed
        if s < 0:
            if not (lo <= b + s <= hi):
                if signed:
                    return True, False
                exact = False
            v, e = norm(w, signed, b + s), a
        else:
            v, e = a, b
        step = norm(w, signed, s)
    else:
        ct_signed = False
        v, e, step = norm(w, False, a), norm(w, False, b), norm(w, False, norm(w, signed, s))
        exact = (a >= 0 and b >= 0 and s >= 0)
    d = norm(w, True, step)     # conversion of step_ to difference_type
    clo, chi = lim(w, ct_signed)
    for _ in range(cap + 1):
        if ct_signed:
            eq = (not v < e) if step >= 0 else (v < e)
        else:
            eq = not v < e
        if eq:
            break
        if ct_signed:
            if not (clo <= v + d <= chi):
                return True, False
            v = v + d
        else:
            if v + step > chi:
                exact = False
            v = (v + step) % 2 ** w
    return False, exact


def gen(ctx):
    r = ctx.rng
    thorough = ctx.tier != "quick"
    C = []     # (kind, harness line, coq expr, oracle info)
    for t, (ti, w, signed) in TYPES.items():
        lo, hi = lim(w, signed)
        # (a, b) windows: around zero, at the top and at the bottom of the type
        pairs = []
        z0 = -3 if signed else 0
        for a in range(z0, z0 + 6):
            for b in range(a, z0 + 7):
                pairs.append((a, b))
        for a in range(hi - 3, hi + 1):
            for b in range(a, hi + 1):
                pairs.append((a, b))
        for a in range(lo, lo + 3):
            for b in range(a, lo + 4):
                pairs.append((a, b))
        pairs += [(lo, hi), (0, hi), (hi - 9, hi), (lo, lo + 9)]
        pairs += [(5, 3), (hi, hi - 2)] if not signed else [(5, 3)]   # begin > end: outside the precondition
        pairs = sorted(set(pairs))
        for (a, b) in pairs:
            cap = 8
            if signed:
                iter_ok = (a <= b and b - a <= cap) or (a + cap + 1 <= hi)
                size_ok = lo <= b - a - 1 and b - a <= hi and b - 1 >= lo
                if not (iter_ok and size_ok):
                    continue
            C.append(("range", "range %s %d %d %d" % (t, a, b, cap),
                      "run_range %d %s %s %d" % (ti, Z(a), Z(b), cap), (t, a, b, cap)))
            if a == 0:
                C.append(("range", "range1 %s %d %d" % (t, b, cap),
                          "run_range %d %s %s %d" % (ti, Z(0), Z(b), cap), (t, 0, b, cap)))
        # stepped ranges
        for u_signed in (True, False):
            if u_signed:
                slo, shi = lim(w, True)
                steps = [1, 2, 3, 4, 7, shi, shi - 1, -1, -2, -3, -4, -7, slo, slo + 1]
            else:
                steps = [1, 2, 3, 4, 7, 2 ** w - 1, 2 ** (w - 1), 2 ** (w - 1) + 1, 2 ** (w - 1) - 1]
            for (a, b) in pairs:
                ss = steps if ((abs(a) < 4 and a <= b and w == 32) or thorough) else r.sample(steps, 2)
                for s in ss:
                    cap = 12
                    ub, inpre = sim_rstep(t, u_signed, a, b, s, cap)
                    if ub:
                        ctx.count("rstep:skipped-signed-overflow-UB")
                        continue
                    C.append(("rstep", "rstep %s %s %d %d %d %d" % (t, "s" if u_signed else "u", a, b, s, cap),
                              "run_rstep %d %s %s %s %s %d" % (ti, "true" if u_signed else "false", Z(a), Z(b), Z(s), cap),
                              (t, u_signed, a, b, s, cap, inpre)))
        # count / count.step
        for v in [0, 1, 5, hi - 2, hi - 6] + ([lo, lo + 1, -4] if signed else []):
            for cap in (0, 1, 5):
                if signed and v + cap > hi:
                    continue
                C.append(("count", "count %s %d %d" % (t, v, cap), "run_count %d %s %d" % (ti, Z(v), cap), (t, v, 1, cap)))
            for s in [1, 3, 15, hi] + ([-1, -3, lo] if signed else [2 ** w - 1]):
                cap = 5
                if signed and not all(lo <= v + k * s <= hi for k in range(cap + 1)):
                    continue
                C.append(("count", "cstep %s %d %d %d" % (t, v, s, cap),
                          "run_cstep %d %s %s %d" % (ti, Z(v), Z(s), cap), (t, v, s, cap)))
    # enums: E0 (int, size_ = 0), E3 (int, 3), E6 (unsigned char, 6)
    for k, ti in ((0, 0), (3, 0), (6, 4)):
        C.append(("enum", "enum1 %d" % k, "run_enum1 %d %s" % (ti, Z(k)), (0, k, 1)))
        for b in range(0, k + 1):
            for e in range(b, k + 1):
                C.append(("enum", "enum %d %d %d" % (k, b, e), "run_enum %d %s %s" % (ti, Z(b), Z(e)), (b, e, 1)))
                for s in (1, 2, 3, 5):
                    C.append(("enum", "estep %d %d %d %d" % (k, b, e, s),
                              "run_estep %d %s %s %s" % (ti, Z(b), Z(e), Z(s)), (b, e, s)))
    # spans: every (p, s) in a buffer of 6, every count / offset within the preconditions
    n = 5
    tf = lambda x: "true" if x else "false"
    for p in range(0, n + 1):
        for s in range(0, n - p + 1):
            for c in range(0, s + 1):
                if c == s:
                    ctx.count("edge:span first/last count==size")
                    if c <= 3:
                        ctx.count("edge:span first/last<Count> Count==size")
                for op, fn in (("first", "run_first"), ("last", "run_last")):
                    C.append(("span", "span %d %d %d 1 %s %d" % (n, p, s, op, c),
                              "%s %d %d %d %d true" % (fn, n, p, s, c), (op, p, s, 0, c, True)))
                if c <= 3:
                    for op, fn in (("tfirst", "run_tfirst"), ("tlast", "run_tlast")):
                        C.append(("span", "span %d %d %d 1 %s %d" % (n, p, s, op, c),
                                  "%s %d %d %d %d true" % (fn, n, p, s, c), (op[1:], p, s, 0, c, True)))
            for o in range(0, s + 2):
                valid = o <= s
                # default count (also one past the end: accepted by the CELER_EXPECT, size wraps)
                C.append(("span", "span %d %d %d %d sub1 %d" % (n, p, s, int(valid), o),
                          "run_sub %d %d %d %d %s %s" % (n, p, s, o, Z(DYN), tf(valid)), ("sub", p, s, o, DYN, valid)))
                for c in range(0, max(0, s - o) + 1):
                    if not valid:
                        continue
                    if o + c == s:
                        ctx.count("edge:span subspan offset+count==size")
                    C.append(("span", "span %d %d %d 1 sub %d %d" % (n, p, s, o, c),
                              "run_sub %d %d %d %d %d true" % (n, p, s, o, c), ("sub", p, s, o, c, True)))
                    C.append(("span", "span %d %d %d 1 sub %d %d" % (n, p, s, o, DYN),
                              "run_sub %d %d %d %d %s true" % (n, p, s, o, Z(DYN)), ("sub", p, s, o, DYN, True)))
            # template subspan<O, C>, dynamic base and base of extent 4
            for o in range(0, 4):
                for c in ((0, 1, 2, 3, 9) if (thorough or (p + s + o) % 2 == 0) else (1, 9)):
                    cc = DYN if c == 9 else c
                    valid = o <= s and (cc == DYN or cc <= s - o)
                    if valid and cc != DYN and o + cc == s:
                        ctx.count("edge:span subspan<O,C> O+C==size")
                    C.append(("span", "span %d %d %d %d tsub %d %d" % (n, p, s, int(valid), o, c),
                              "run_tsub %d %d %d %s %d %s %s" % (n, p, s, Z(DYN), o, Z(cc), tf(valid)), ("sub", p, s, o, cc, valid)))
                    if s == 4:
                        C.append(("span", "span %d %d 4 %d tsub4 %d %d" % (n, p, int(valid), o, c),
                                  "run_tsub %d %d 4 4 %d %s %s" % (n, p, o, Z(cc), tf(valid)), ("sub", p, 4, o, cc, valid)))
    # subspan_extent / subspan_size and the preconditions at the size_t boundaries
    edge = [0, 1, 3, 2 ** 63, DYN - 1, DYN]
    for e in edge:
        for o in edge:
            for c in edge:
                C.append(("sext", "sext %d %d %d" % (e, o, c), "run_sext %s %s %s" % (Z(e), Z(o), Z(c)), (e, o, c)))
                C.append(("pre", "pre %d %d %d" % (e, o, c), "run_pre %s %s %s" % (Z(e), Z(o), Z(c)), (e, o, c)))
    for s in range(0, 4):
        for o in range(0, 6):
            for c in list(range(0, 6)) + [DYN]:
                C.append(("pre", "pre %d %d %d" % (s, o, c), "run_pre %s %s %s" % (Z(s), Z(o), Z(c)), (s, o, c)))
    return C


def oracle(kind, info, impl):
    """reference semantics (arithmetic progression / slice) on the implementation's output,
    applied where the explicit preconditions of the theorems hold"""
    if kind == "range":
        t, a, b, cap = info
        if a <= b:
            els = impl[0]
            if els != list(islice(range(a, b), cap)):
                return "range(%d, %d) yields %s, expected a, a+1, ..., b-1" % (a, b, els)
            _, w, signed = TYPES[t]
            if b - a <= lim(w, signed)[1]:
                size, empty, front, back = impl[1]
                if size != b - a or empty != int(a == b) or front != a or (a < b and back != b - 1):
                    return "Range size/empty/front/back = %s for range(%d, %d)" % (impl[1], a, b)
    elif kind == "rstep":
        t, u_signed, a, b, s, cap, inpre = info
        _, w, signed = TYPES[t]
        if a <= b and inpre and s != 0:
            if s > 0:
                exp = list(islice(range(a, b, s), cap))
            elif signed and u_signed:
                exp = list(islice(range(b + s, a - 1, s), cap))
            else:
                return None
            if impl[0] != exp:
                return "range(%d, %d).step(%d) yields %s, expected the arithmetic progression %s" % (a, b, s, impl[0], exp)
    elif kind == "count":
        t, v, s, cap = info
        _, w, signed = TYPES[t]
        lo, hi = lim(w, signed)
        exp = [v + k * s for k in range(cap)]
        if all(lo <= x <= hi for x in exp):
            if impl[0] != exp:
                return "count(%d).step(%d) yields %s, expected %s" % (v, s, impl[0], exp)
    elif kind == "enum":
        b, e, s = info
        if impl[0] != list(range(b, e, s)):
            return "enum range(%d, %d) step %d yields %s" % (b, e, s, impl[0])
    elif kind == "span":
        op, p, s, o, c, valid = info
        if not valid:
            return None
        base = list(range(100 + p, 100 + p + s))
        if op == "first":
            exp = base[:c]
        elif op == "last":
            exp = base[s - c:]
        else:
            exp = base[o:] if c == DYN else base[o:o + c]
        data, size, empty = impl[0][0], impl[0][1], impl[0][2]
        els = impl[0][4:]
        if els != exp or size != len(exp) or empty != int(len(exp) == 0):
            return "Span %s(%s) of a span of %d elements gives %s (size %d), expected %s" % (op, (o, c), s, els, size, exp)
    return None


def parse_impl(line):
    left, _, right = line.partition("|")
    return [[int(x) for x in left.split()], [int(x) for x in right.split()]]


def flat(v):
    out = []
    for x in (v if isinstance(v, (list, tuple)) else [v]):
        if isinstance(x, (list, tuple)):
            out += flat(x)
        elif isinstance(x, bool):
            out.append(int(x))
        else:
            out.append(x)
    return out


def run(ctx, batched_eval, repo):
    ok_pre, exprs = write_span_pre(ctx, repo)
    if not ok_pre:
        ctx.violation("translator", "cannot find the six CELER_EXPECTs of Span's subviews in Span.hh", {"found": exprs}, no_input=True)
    exe = ctx.compile_harness([os.path.join(HERE, "harness", "cont.cc")], "cont", extra=["-I", ctx.work])
    cases = gen(ctx)
    rc, out = ctx.run_harness(exe, input="".join(c[1] + "\n" for c in cases), timeout=300)
    lines = out.splitlines()
    if rc != 0 or len(lines) != len(cases):
        bad = cases[len(lines)][1] if len(lines) < len(cases) else "?"
        ctx.violation("oracle", "cont harness died (rc=%d) at command '%s'" % (rc, bad), {"command": bad, "tail": out[-800:]})
        return 0
    mvals = batched_eval(ctx, "cont", PRE, [(c[0] + c[2].split()[0], c[2]) for c in cases], batch=150, files=4)
    nviol = {}
    pending = []     # model/implementation disagreements, reported after the oracle violations
    for (kind, line, expr, info), il, mv in zip(cases, lines, mvals):
        ctx.count("cont:" + kind)
        ctx.case(line, nontrivial=True)
        if "EXC" in il or "unknown" in il or "bad-op" in il:
            raise RuntimeError("cont harness: %s -> %s" % (line, il))
        impl = parse_impl(il)
        if ctx.evaluations % 997 == 0:
            ctx.sample({"command": line, "impl": il, "model": repr(mv)[:160]})
        msg = oracle(kind, info, impl)
        if msg:
            if nviol.get(kind, 0) < 2:
                nviol[kind] = nviol.get(kind, 0) + 1
                ctx.violation("oracle", msg, {"command": line, "implementation": il, "model": repr(mv)[:400]})
        elif flat(mv) != impl[0] + impl[1]:
            pending.append((kind, line, expr, il, mv))
    for kind, line, expr, il, mv in pending:
        if nviol.get(kind, 0) >= 2:
            continue
        nviol[kind] = nviol.get(kind, 0) + 1
        ctx.violation("correspondence", "Range/Span model and implementation differ for '%s'" % line.split()[0],
                      {"command": line, "implementation": il, "model": repr(mv)[:400], "coq": expr,
                       "theorem": "Properties_C18.v (Range/Span theorems) is about a model that no longer matches the code"},
                      no_input=(kind in ("pre", "sext")))
    return len(cases)
