"""C18: audit of preconditions that are CLOSED at the end.

Every CELER_EXPECT of the C18 anchor headers is re-extracted from /repo on every run.  An
expectation that admits an extreme value (`<=`, `>=`, `!(a < b)`, `== 0 ||`) must have that extreme
value in the differential: REGISTRY maps the (whitespace-normalised) expectation to the label the
generators count (`ctx.count`) whenever they emit such a case.  A registered expectation whose
label was not exercised in this run is reported (the generator lost an edge); an expectation that is
closed at the end but not registered (new or edited in /repo) is recorded in the evidence notes.
(Seeded change C18-m5 changed HyperslabInverseIndexer only at index == size, an input admitted by
`index <= hyperslab_size(dims_)` that the round-2 differential did not contain.)
"""
import os, re

ANCHORS = [
    "src/corecel/math/Algorithms.hh", "src/corecel/math/detail/AlgorithmsImpl.hh",
    "src/corecel/cont/Range.hh", "src/corecel/cont/detail/RangeImpl.hh",
    "src/corecel/cont/Span.hh", "src/corecel/cont/detail/SpanImpl.hh",
    "src/corecel/data/HyperslabIndexer.hh",
    "src/corecel/grid/UniformGrid.hh", "src/corecel/grid/UniformGridData.hh",
    "src/corecel/grid/NonuniformGrid.hh", "src/corecel/grid/FindInterp.hh",
    "src/corecel/grid/Interpolator.hh", "src/corecel/grid/TwodGridCalculator.hh",
    "src/corecel/grid/TwodSubgridCalculator.hh", "src/orange/univ/detail/RaggedRightIndexer.hh",
]

# normalised expectation -> (label counted by the generators | None, extreme admitted value)
REGISTRY = {
    "index <= detail::hyperslab_size(dims_)": ("edge:hyperslab-inverse index==size", "index == prod(dims): coords (dims[0],0,..,0)"),
    "Count == 0 || Count <= this->size()": ("edge:span first/last<Count> Count==size", "Count == size()"),
    "count <= this->size()": ("edge:span first/last count==size", "count == size()"),
    "(Count == dynamic_extent) || (Offset == 0 && Count == 0) || (Offset + Count <= this->size())":
        ("edge:span subspan<O,C> O+C==size", "Offset + Count == size()"),
    "offset + count <= this->size()": ("edge:span subspan offset+count==size", "offset + count == size(), incl. offset == size(), count == 0"),
    "!(hi < lo)": ("edge:clamp lo==hi", "lo == hi"),
    "a > 0 || (a == 0 && b != 0)": ("edge:fastpow a==0", "a == 0, b != 0"),
    "value >= this->front() && value < this->back()": ("edge:grid find value==front", "value == front()"),
    "value >= grid.front() && value < grid.back()": ("edge:find_interp value==front", "value == front()"),
    "x >= x_grid.front() && x < x_grid.back()": ("edge:twod x==front", "x == x_grid.front()"),
    "y >= y_grid.front() && y < y_grid.back()": ("edge:twod y==front", "y == y_grid.front()"),
    "x_loc.fraction >= 0 && x_loc_.fraction < 1": ("edge:twod x==front", "fraction == 0 (x on a grid point)"),
    "size >= 2": ("edge:uniform grid size==2", "size == 2"),
    "offset_.size() >= 2": ("edge:nonuniform grid size==2", "2 grid points"),
    "*offset_.end() <= storage.size()": ("edge:nonuniform grid size==2", "grid stored at the very end of the backend storage (always so in harness/grids.cc)"),
    "this->front() <= this->back()": (None, "front == back is admitted by the constructor, but then find()'s precondition "
                                      "front <= v < back is empty: no lookup is callable on such a grid"),
    "d != nullptr || size == 0": (None, "pointer validity: not an ordering edge"),
}


def extract(repo):
    out = []
    for rel in ANCHORS:
        path = os.path.join(repo, rel)
        if not os.path.exists(path):
            continue
        src = open(path).read()
        for m in re.finditer(r"CELER_EXPECT\(", src):
            i = m.end(); depth = 1
            while i < len(src) and depth:
                depth += {"(": 1, ")": -1}.get(src[i], 0); i += 1
            text = " ".join(src[m.end():i - 1].split())
            out.append((rel, src.count("\n", 0, m.start()) + 1, text))
    return out


def closed_at_end(text):
    return bool(re.search(r"<=|>=|!\s*\(|== 0 \|\|", text))


def report(ctx, repo):
    exps = extract(repo)
    closed = [(f, ln, t) for f, ln, t in exps if closed_at_end(t)]
    missing, unknown, rows = [], [], []
    for f, ln, t in closed:
        if t not in REGISTRY:
            unknown.append("%s:%d CELER_EXPECT(%s)" % (f, ln, t))
            continue
        label, what = REGISTRY[t]
        n = ctx.dist.get(label, 0) if label else None
        rows.append("%s:%d (%s) -> %s: %s" % (f, ln, t, what, "n/a" if label is None else "%d cases" % n))
        if label is not None and not n:
            missing.append((f, ln, t, label))
    ctx.notes.append("closed-end preconditions audited (%d of %d CELER_EXPECTs in the anchor headers): %s" % (len(closed), len(exps), " ; ".join(rows)))
    if unknown:
        ctx.notes.append("closed-end preconditions in /repo WITHOUT a registered extreme-value case (props/C18/pre_audit.py): " + " ; ".join(unknown))
    for f, ln, t, label in missing:
        ctx.violation("tie-broken", "the differential no longer contains the extreme value admitted by %s:%d CELER_EXPECT(%s) [%s]" % (f, ln, t, label),
                      {"expectation": t, "label": label}, no_input=True)
    ctx.log("precondition audit: %d CELER_EXPECTs, %d closed at the end, %d unregistered" % (len(exps), len(closed), len(unknown)))
    return closed
