// C18 correspondence harness for grid lookups / interpolators (binary64).
// Input: one command per line with hex-float operands; output one line each.
#include <cmath>
#include <iostream>
#include <sstream>
#include <string>
#include <vector>

#include "corecel/Types.hh"
#include "corecel/data/Collection.hh"
#include "corecel/data/CollectionBuilder.hh"
#include "corecel/grid/FindInterp.hh"
#include "corecel/grid/Interpolator.hh"
#include "corecel/grid/NonuniformGrid.hh"
#include "corecel/grid/TwodGridCalculator.hh"
#include "corecel/grid/TwodGridData.hh"
#include "corecel/grid/UniformGrid.hh"
#include "corecel/grid/UniformGridData.hh"

#include "../../../harness/common.hh"

using namespace celeritas;
using verif::hex;
using verif::rd;
using HostReals = Collection<real_type, Ownership::value, MemSpace::host>;
using HostRealsRef = Collection<real_type, Ownership::const_reference, MemSpace::host>;

static ItemRange<real_type> push(HostReals& reals, std::vector<double> const& v)
{
    return make_builder(&reals).insert_back(v.begin(), v.end());
}

int main()
{
    std::ios::sync_with_stdio(false);
    std::string line;
    while (std::getline(std::cin, line))
    {
        std::istringstream is(line);
        std::ostringstream os;
        std::string cmd;
        is >> cmd;
        if (cmd == "ufind" || cmd == "finterpu")
        {
            double front = rd(is), back = rd(is);
            size_type size;
            is >> size;
            double v = rd(is);
            auto data = UniformGridData::from_bounds(front, back, size);
            UniformGrid grid(data);
            if (cmd == "ufind")
            {
                size_type bin = grid.find(v);
                os << bin;
                // operator[] only at valid points: out-of-range bins are reported, not read
                if (bin < size)
                    os << ' ' << hex(grid[bin]);
                else
                    os << " oob";
                if (bin + 1 < size)
                    os << ' ' << hex(grid[bin + 1]);
                else
                    os << " oob";
            }
            else
            {
                auto r = find_interp(grid, v);
                os << r.index << ' ' << hex(r.fraction);
            }
        }
        else if (cmd == "nfind" || cmd == "finterpn")
        {
            auto g = verif::rdvec(is);
            double v = rd(is);
            HostReals reals;
            auto range = push(reals, g);
            HostRealsRef ref;
            ref = reals;
            NonuniformGrid<real_type> grid(range, ref);
            if (cmd == "nfind")
                os << grid.find(v);
            else
            {
                auto r = find_interp(grid, v);
                os << r.index << ' ' << hex(r.fraction);
            }
        }
        else if (cmd == "interp")
        {
            double xl = rd(is), yl = rd(is), xr = rd(is), yr = rd(is), x = rd(is);
            LinearInterpolator<real_type> interp({xl, yl}, {xr, yr});
            os << hex(interp(x));
        }
        else if (cmd == "twod")
        {
            auto xs = verif::rdvec(is);
            auto ys = verif::rdvec(is);
            auto vals = verif::rdvec(is);
            double x = rd(is), y = rd(is);
            HostReals reals;
            // some padding so that offsets are not zero
            push(reals, {-1.0, -2.0, -3.0});
            TwodGridData data;
            data.x = push(reals, xs);
            data.y = push(reals, ys);
            data.values = push(reals, vals);
            HostRealsRef ref;
            ref = reals;
            TwodGridCalculator calc(data, ref);
            os << hex(calc({x, y}));
        }
        else
        {
            os << "unknown-command " << cmd;
        }
        std::cout << os.str() << '\n';
    }
    return 0;
}
