// C18 correspondence harness for the scalar helpers of corecel/math/Algorithms.hh.
// One output line per command:  <implementation> | <reference computed here>
#include <cmath>
#include <cstdint>
#include <cstdio>
#include <iostream>
#include <sstream>
#include <string>
#include <utility>

#include "corecel/math/Algorithms.hh"

static double rd(std::istream& is)
{
    std::string s;
    is >> s;
    if (s == "nan")
        return std::nan("");
    return std::strtod(s.c_str(), nullptr);
}
static std::string hx(double x)
{
    if (x != x)
        return "nan";
    char buf[64];
    std::snprintf(buf, sizeof(buf), "%a", x);
    return buf;
}

template<unsigned int... N>
unsigned int ipow_u32(unsigned int n, unsigned int v, std::integer_sequence<unsigned int, N...>)
{
    unsigned int r = 0;
    ((n == N ? (r = celeritas::ipow<N>(v), 0) : 0), ...);
    return r;
}

int main()
{
    using namespace celeritas;
    using ull = unsigned long long;
    using ll = long long;
    std::string line;
    while (std::getline(std::cin, line))
    {
        std::istringstream is(line);
        std::ostringstream os;
        std::string cmd;
        is >> cmd;
        if (cmd == "clamp")
        {
            double v = rd(is), lo = rd(is), hi = rd(is);
            os << hx(clamp(v, lo, hi)) << " | " << hx(std::fmin(hi, std::fmax(lo, v)));
        }
        else if (cmd == "nonneg")
        {
            double v = rd(is);
            os << hx(clamp_to_nonneg(v)) << " |";
        }
        else if (cmd == "fmin" || cmd == "fmax")
        {
            double a = rd(is), b = rd(is);
            os << hx(cmd == "fmin" ? celeritas::min(a, b) : celeritas::max(a, b)) << " |";
        }
        else if (cmd == "fastpow")
        {
            double a = rd(is), b = rd(is);
            os << hx(fastpow(a, b)) << " | " << hx(std::pow(a, b));
        }
        else if (cmd == "negate")
        {
            double v = rd(is);
            os << hx(negate(v)) << " |";
        }
        else if (cmd == "diffsq")
        {
            double a = rd(is), b = rd(is);
            os << hx(diffsq(a, b)) << " |";
        }
        else if (cmd == "eumod")
        {
            double n = rd(is), d = rd(is);
            os << hx(eumod(n, d)) << " | " << hx(std::fmod(n, d));
        }
        else if (cmd == "signum")
        {
            double x = rd(is);
            os << signum(x) << " |";
        }
        else if (cmd == "rsqrt")
        {
            double x = rd(is);
            os << hx(rsqrt(x)) << " |";
        }
        else if (cmd == "imin" || cmd == "imax")
        {
            ll a, b;
            is >> a >> b;
            os << (cmd == "imin" ? celeritas::min(a, b) : celeritas::max(a, b)) << " |";
        }
        else if (cmd == "iclamp")
        {
            ll v, lo, hi;
            is >> v >> lo >> hi;
            os << clamp(v, lo, hi) << " |";
        }
        else if (cmd == "isignum")
        {
            ll x;
            is >> x;
            os << signum(x) << " |";
        }
        else if (cmd == "fmau32")
        {
            unsigned int a, b, y;
            is >> a >> b >> y;
            os << celeritas::fma(a, b, y) << " |";
        }
        else if (cmd == "fmau64")
        {
            ull a, b, y;
            is >> a >> b >> y;
            os << celeritas::fma(a, b, y) << " |";
        }
        else if (cmd == "negu32")
        {
            unsigned int v;
            is >> v;
            os << negate(v) << " |";
        }
        else if (cmd == "dsqu32")
        {
            unsigned int a, b;
            is >> a >> b;
            os << diffsq(a, b) << " |";
        }
        else if (cmd == "cdivu32")
        {
            unsigned int a, b;
            is >> a >> b;
            os << ceil_div(a, b) << " |";
        }
        else if (cmd == "cdivu64")
        {
            ull a, b;
            is >> a >> b;
            os << ceil_div(a, b) << " |";
        }
        else if (cmd == "ipowu32")
        {
            unsigned int n, v;
            is >> n >> v;
            os << ipow_u32(n, v, std::make_integer_sequence<unsigned int, 41>{}) << " |";
        }
        else
            os << "unknown-command |";
        std::cout << os.str() << std::endl;
    }
    return 0;
}
