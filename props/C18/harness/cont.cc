// C18 correspondence harness for corecel/cont/Range.hh (+ detail/RangeImpl.hh) and
// corecel/cont/Span.hh (+ detail/SpanImpl.hh).  Commands on stdin, one output line each.
// The CELER_EXPECT conditions of Span's subviews (compiled out in this build) are
// re-generated from the header text by run.py into span_pre.inc and evaluated here.
#include <cstddef>
#include <iostream>
#include <sstream>
#include <string>
#include <type_traits>
#include <vector>

#include "corecel/Types.hh"
#include "corecel/cont/Range.hh"
#include "corecel/cont/Span.hh"

using celeritas::dynamic_extent;
using std::size_t;

#include "span_pre.inc"

template<class T>
T parse(std::string const& s)
{
    if constexpr (std::is_signed_v<T>)
        return static_cast<T>(std::stoll(s));
    else
        return static_cast<T>(std::stoull(s));
}

template<class T>
void put(std::ostream& os, T v)
{
    if constexpr (std::is_enum_v<T>)
        os << ' ' << +static_cast<std::underlying_type_t<T>>(v);
    else
        os << ' ' << +v;
}

template<class T>
void do_range(std::istream& is, std::ostream& os, bool one)
{
    std::string a, b;
    size_t cap;
    T av{};
    if (!one)
    {
        is >> a;
        av = parse<T>(a);
    }
    is >> b >> cap;
    T bv = parse<T>(b);
    auto r = one ? celeritas::range(bv) : celeritas::range(av, bv);
    size_t n = 0;
    for (auto v : r)
    {
        if (n++ >= cap)
            break;
        put(os, v);
    }
    os << " |";
    put(os, r.size());
    os << ' ' << r.empty();
    put(os, r.front());
    put(os, r.back());
}

template<class T, class U>
void do_rstep(std::istream& is, std::ostream& os)
{
    std::string a, b, s;
    size_t cap;
    is >> a >> b >> s >> cap;
    auto sr = celeritas::range(parse<T>(a), parse<T>(b)).step(parse<U>(s));
    size_t n = 0;
    for (auto v : sr)
    {
        if (n++ >= cap)
            break;
        put(os, v);
    }
    os << " |";
}

template<class T>
void do_count(std::istream& is, std::ostream& os, bool step)
{
    std::string v, s;
    size_t cap;
    is >> v;
    if (step)
        is >> s;
    is >> cap;
    size_t n = 0;
    if (step)
    {
        for (auto x : celeritas::count<T>(parse<T>(v)).step(parse<T>(s)))
        {
            if (n++ >= cap)
                break;
            put(os, x);
        }
    }
    else
    {
        for (auto x : celeritas::count<T>(parse<T>(v)))
        {
            if (n++ >= cap)
                break;
            put(os, x);
        }
    }
    os << " |";
}

enum class E0
{
    size_
};
enum class E3
{
    a,
    b,
    c,
    size_
};
enum class E6 : unsigned char
{
    a,
    b,
    c,
    d,
    e,
    f,
    size_
};

template<class E>
void do_enum(std::istream& is, std::ostream& os, std::string const& cmd)
{
    if (cmd == "enum1")
    {
        for (auto v : celeritas::range(E::size_))
            put(os, v);
    }
    else if (cmd == "enum")
    {
        int b, e;
        is >> b >> e;
        for (auto v : celeritas::range(static_cast<E>(b), static_cast<E>(e)))
            put(os, v);
    }
    else
    {
        int b, e;
        unsigned int s;
        is >> b >> e >> s;
        size_t n = 0;
        for (auto v : celeritas::range(static_cast<E>(b), static_cast<E>(e)).step(s))
        {
            if (n++ >= 64)
                break;
            put(os, v);
        }
    }
    os << " |";
}

template<class F>
void by_type(std::string const& t, F&& f)
{
    if (t == "i32")
        f(int{});
    else if (t == "u32")
        f(static_cast<unsigned int>(0));
    else if (t == "i64")
        f(static_cast<long>(0));
    else if (t == "u64")
        f(static_cast<unsigned long>(0));
    else
        throw std::runtime_error("bad type " + t);
}

//---------------------------------------------------------------------------//
// Span
template<class S>
void put_span(std::ostream& os, int const* buf, S const& r, bool elems)
{
    os << ' ' << (r.data() - buf) << ' ' << r.size() << ' ' << r.empty() << ' '
       << static_cast<size_t>(S::extent);
    if (elems)
        for (auto v : r)
            os << ' ' << v;
}

template<size_t E, size_t O, size_t C>
void tsub_one(std::ostream& os, int* buf, size_t p, size_t s, bool elems)
{
    celeritas::Span<int, E> base(buf + p, s);
    put_span(os, buf, base.template subspan<O, C>(), elems);
}

template<size_t E, size_t O>
void tsub_c(std::ostream& os, int* buf, size_t p, size_t s, size_t c, bool elems)
{
    switch (c)
    {
        case 0: tsub_one<E, O, 0>(os, buf, p, s, elems); break;
        case 1: tsub_one<E, O, 1>(os, buf, p, s, elems); break;
        case 2: tsub_one<E, O, 2>(os, buf, p, s, elems); break;
        case 3: tsub_one<E, O, 3>(os, buf, p, s, elems); break;
        default: tsub_one<E, O, dynamic_extent>(os, buf, p, s, elems); break;
    }
}

template<size_t E>
void tsub(std::ostream& os, int* buf, size_t p, size_t s, size_t o, size_t c, bool elems)
{
    switch (o)
    {
        case 0: tsub_c<E, 0>(os, buf, p, s, c, elems); break;
        case 1: tsub_c<E, 1>(os, buf, p, s, c, elems); break;
        case 2: tsub_c<E, 2>(os, buf, p, s, c, elems); break;
        default: tsub_c<E, 3>(os, buf, p, s, c, elems); break;
    }
}

template<size_t E>
void tfl(std::ostream& os, int* buf, size_t p, size_t s, bool first, size_t c, bool elems)
{
    celeritas::Span<int, E> base(buf + p, s);
    if (first)
    {
        switch (c)
        {
            case 0: put_span(os, buf, base.template first<0>(), elems); break;
            case 1: put_span(os, buf, base.template first<1>(), elems); break;
            case 2: put_span(os, buf, base.template first<2>(), elems); break;
            default: put_span(os, buf, base.template first<3>(), elems); break;
        }
    }
    else
    {
        switch (c)
        {
            case 0: put_span(os, buf, base.template last<0>(), elems); break;
            case 1: put_span(os, buf, base.template last<1>(), elems); break;
            case 2: put_span(os, buf, base.template last<2>(), elems); break;
            default: put_span(os, buf, base.template last<3>(), elems); break;
        }
    }
}

int main()
{
    std::string line;
    while (std::getline(std::cin, line))
    {
        std::istringstream is(line);
        std::ostringstream os;
        std::string cmd;
        is >> cmd;
        try
        {
            if (cmd == "range" || cmd == "range1")
            {
                std::string t;
                is >> t;
                by_type(t, [&](auto z) { do_range<decltype(z)>(is, os, cmd == "range1"); });
            }
            else if (cmd == "rstep")
            {
                std::string t, u;
                is >> t >> u;
                by_type(t, [&](auto z) {
                    using T = decltype(z);
                    if (u == "s")
                        do_rstep<T, std::make_signed_t<T>>(is, os);
                    else
                        do_rstep<T, std::make_unsigned_t<T>>(is, os);
                });
            }
            else if (cmd == "count" || cmd == "cstep")
            {
                std::string t;
                is >> t;
                by_type(t, [&](auto z) { do_count<decltype(z)>(is, os, cmd == "cstep"); });
            }
            else if (cmd == "enum1" || cmd == "enum" || cmd == "estep")
            {
                int k;
                is >> k;
                if (k == 0)
                    do_enum<E0>(is, os, cmd);
                else if (k == 3)
                    do_enum<E3>(is, os, cmd);
                else
                    do_enum<E6>(is, os, cmd);
            }
            else if (cmd == "span")
            {
                // span n p s elems op args: buffer of n ints (100 + index), base = Span(buf + p, s)
                size_t n, p, s;
                int elems;
                std::string op;
                is >> n >> p >> s >> elems >> op;
                std::vector<int> store(n + 8);
                for (size_t i = 0; i < store.size(); ++i)
                    store[i] = 100 + static_cast<int>(i);
                int* buf = store.data();
                celeritas::Span<int> base(buf + p, s);
                if (op == "first")
                {
                    size_t c;
                    is >> c;
                    put_span(os, buf, base.first(c), elems);
                }
                else if (op == "last")
                {
                    size_t c;
                    is >> c;
                    put_span(os, buf, base.last(c), elems);
                }
                else if (op == "sub")
                {
                    size_t o, c;
                    is >> o >> c;
                    put_span(os, buf, base.subspan(o, c), elems);
                }
                else if (op == "sub1")
                {
                    size_t o;
                    is >> o;
                    put_span(os, buf, base.subspan(o), elems);
                }
                else if (op == "tsub" || op == "tsub4")
                {
                    // template subspan<O, C> (C = 9 means dynamic_extent); tsub4: base extent 4
                    size_t o, c;
                    is >> o >> c;
                    if (op == "tsub")
                        tsub<dynamic_extent>(os, buf, p, s, o, c, elems);
                    else
                        tsub<4>(os, buf, p, 4, o, c, elems);
                }
                else if (op == "tfirst" || op == "tlast")
                {
                    size_t c;
                    is >> c;
                    tfl<dynamic_extent>(os, buf, p, s, op == "tfirst", c, elems);
                }
                else
                    os << " bad-op";
                os << " |";
            }
            else if (cmd == "sext")
            {
                size_t e, o, c;
                is >> e >> o >> c;
                os << ' ' << celeritas::detail::subspan_extent(e, o, c) << ' '
                   << celeritas::detail::subspan_size(e, o, c) << " |";
            }
            else if (cmd == "pre")
            {
                size_t s, o, c;
                is >> s >> o >> c;
                os << ' ' << pre_0(s, o, c) << ' ' << pre_1(s, o, c) << ' ' << pre_2(s, o, c) << ' '
                   << pre_3(s, o, c) << ' ' << pre_4(s, o, c) << ' ' << pre_5(s, o, c) << " |";
            }
            else
                os << "unknown-command |";
        }
        catch (std::exception const& e)
        {
            os << " EXC " << e.what() << " |";
        }
        std::cout << os.str() << std::endl;
    }
    return 0;
}
