(* OCaml driver for the extracted C18 model: same command language as algos.cc *)
open C18model

let rec nat_of_int n = if n <= 0 then O else S (nat_of_int (n - 1))
let nat_of_int n =
  (* tail recursive for large n *)
  let rec go acc k = if k <= 0 then acc else go (S acc) (k - 1) in go O n
let int_of_nat n = let rec go acc = function O -> acc | S m -> go (acc + 1) m in go 0 n
let rec pos_of_int n = if n = 1 then XH else if n land 1 = 0 then XO (pos_of_int (n lsr 1)) else XI (pos_of_int (n lsr 1))
let z_of_int n = if n = 0 then Z0 else if n > 0 then Zpos (pos_of_int n) else Zneg (pos_of_int (- n))
let rec int_of_pos = function XH -> 1 | XO p -> 2 * int_of_pos p | XI p -> 2 * int_of_pos p + 1
let int_of_z = function Z0 -> 0 | Zpos p -> int_of_pos p | Zneg p -> - (int_of_pos p)

let buf = Buffer.create 65536
let out_int n = Buffer.add_char buf ' '; Buffer.add_string buf (string_of_int n)
let out_elts l = List.iter (fun (k, p) -> out_int (int_of_z k); out_int (int_of_z p)) l

let () =
  (try
    while true do
      let line = input_line stdin in
      let toks = List.filter (fun s -> s <> "") (String.split_on_char ' ' line) in
      (match toks with
       | [] -> ()
       | cmd :: rest ->
         let a = Array.of_list rest in
         let pos = ref 0 in
         let next () = let v = int_of_string a.(!pos) in incr pos; v in
         let elts () =
           let n = next () in
           let l = ref [] in
           for _ = 1 to n do
             let k = next () in let p = next () in
             l := (z_of_int k, z_of_int p) :: !l
           done; List.rev !l in
         let elt () = let k = next () in let p = next () in (z_of_int k, z_of_int p) in
         let nats n = let l = ref [] in for _ = 1 to n do l := nat_of_int (next ()) :: !l done; List.rev !l in
         (match cmd with
          | "sort" -> let c = next () in let l = elts () in out_elts (run_sort (nat_of_int c) l)
          | "psort" -> let c = next () in let mid = next () in let l = elts () in
            out_elts (run_partial_sort (nat_of_int c) l (nat_of_int mid))
          | "part" -> let p = next () in let l = elts () in
            let (l', i) = run_partition (nat_of_int p) l in out_int (int_of_nat i); out_elts l'
          | "lb" -> let c = next () in let l = elts () in let v = elt () in out_int (int_of_nat (run_lower (nat_of_int c) l v))
          | "ub" -> let c = next () in let l = elts () in let v = elt () in out_int (int_of_nat (run_upper (nat_of_int c) l v))
          | "lbl" -> let c = next () in let l = elts () in let v = elt () in out_int (int_of_nat (run_linear (nat_of_int c) l v))
          | "fs" -> let c = next () in let l = elts () in let v = elt () in out_int (int_of_nat (run_find_sorted (nat_of_int c) l v))
          | "min" -> let c = next () in let l = elts () in out_int (int_of_nat (run_min (nat_of_int c) l))
          | "allof" -> let p = next () in let l = elts () in out_int (if run_all_of (nat_of_int p) l then 1 else 0)
          | "anyof" -> let p = next () in let l = elts () in out_int (if run_any_of (nat_of_int p) l then 1 else 0)
          | "alladj" -> let c = next () in let l = elts () in out_int (if run_all_adjacent (nat_of_int c) l then 1 else 0)
          | "srange" -> let x = next () in let y = next () in let s = next () in
            List.iter (fun v -> out_int (int_of_z v)) (run_step_range (z_of_int x) (z_of_int y) (z_of_int s))
          | "range" -> let x = next () in let y = next () in
            List.iter (fun v -> out_int (int_of_z v)) (run_range (z_of_int x) (z_of_int y))
          | "hsi" -> let n = next () in let dims = nats n in let coords = nats n in
            out_int (int_of_nat (run_hs_index dims coords))
          | "hsc" -> let n = next () in let dims = nats n in let idx = next () in
            List.iter (fun v -> out_int (int_of_nat v)) (run_hs_coords dims (nat_of_int idx))
          | "rri" -> let n = next () in let offs = nats n in let x = next () in let y = next () in
            out_int (int_of_nat (run_rr_index offs (nat_of_int x) (nat_of_int y)))
          | "rrc" -> let n = next () in let offs = nats n in let idx = next () in
            let (i, j) = run_rr_coords offs (nat_of_int idx) in out_int (int_of_nat i); out_int (int_of_nat j)
          | "cdiv" -> let x = next () in let y = next () in out_int (int_of_nat (run_ceil_div (nat_of_int x) (nat_of_int y)))
          | "lwork" -> let t = next () in let w = next () in let i = next () in
            out_int (int_of_nat (run_local_work (nat_of_int t) (nat_of_int w) (nat_of_int i)))
          | "ipowz" -> let n = next () in let v = next () in out_int (int_of_z (run_ipow_z (nat_of_int n) (z_of_int v)))
          | _ -> Buffer.add_string buf " unknown-command"));
      Buffer.add_char buf '\n';
      if Buffer.length buf > 60000 then (print_string (Buffer.contents buf); Buffer.clear buf)
    done
  with End_of_file -> ());
  print_string (Buffer.contents buf)
