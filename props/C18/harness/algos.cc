// C18 correspondence harness: runs the header-only algorithms of
// corecel/math/Algorithms.hh (+ Range, indexers) on commands from stdin.
// One output line per input line:  <implementation result> | <std:: reference>
#include <algorithm>
#include <cstdio>
#include <iostream>
#include <sstream>
#include <string>
#include <vector>

#include "corecel/Types.hh"
#include "corecel/cont/Array.hh"
#include "corecel/cont/Range.hh"
#include "corecel/data/HyperslabIndexer.hh"
#include "corecel/math/Algorithms.hh"
#include "orange/univ/detail/RaggedRightIndexer.hh"

using celeritas::size_type;
using ll = long long;

struct Elt
{
    ll key;
    ll payload;
};

// Every array handed to an algorithm sits between two guard zones of sentinel
// elements.  A comparator / predicate call that sees a sentinel is an
// out-of-range read; a modified guard is an out-of-range write; both are
// reported in the output line ("OOB-READ", "OOB-WRITE") instead of crashing.
static constexpr ll sentinel_payload = -777777;
static constexpr std::size_t num_guard = 64;
static bool g_oob_read = false;

static inline void note(Elt const& e)
{
    if (e.payload == sentinel_payload)
        g_oob_read = true;
}

struct Guarded
{
    std::vector<Elt> buf;
    std::size_t n;
    explicit Guarded(std::vector<Elt> const& v) : buf(v.size() + 2 * num_guard), n(v.size())
    {
        for (std::size_t i = 0; i < buf.size(); ++i)
            buf[i] = Elt{static_cast<ll>(i % 3), sentinel_payload};
        std::copy(v.begin(), v.end(), buf.begin() + num_guard);
        g_oob_read = false;
    }
    Elt* begin() { return buf.data() + num_guard; }
    Elt* end() { return buf.data() + num_guard + n; }
    std::vector<Elt> values() const
    {
        return std::vector<Elt>(buf.begin() + num_guard, buf.begin() + num_guard + n);
    }
    bool guards_intact() const
    {
        for (std::size_t i = 0; i < buf.size(); ++i)
        {
            if (i >= num_guard && i < num_guard + n)
                continue;
            if (buf[i].payload != sentinel_payload || buf[i].key != static_cast<ll>(i % 3))
                return false;
        }
        return true;
    }
    // flags appended to the implementation part of the output line
    void report(std::ostream& os, long returned = 0) const
    {
        if (g_oob_read)
            os << " OOB-READ";
        if (!guards_intact())
            os << " OOB-WRITE";
        if (returned < 0 || returned > static_cast<long>(n))
            os << " OOB-RETURN";
    }
};

struct Cmp
{
    int id;
    bool operator()(Elt const& a, Elt const& b) const
    {
        note(a);
        note(b);
        switch (id)
        {
            case 1:
                return a.key > b.key;
            case 2:
                return a.key < b.key || (a.key == b.key && a.payload < b.payload);
            default:
                return a.key < b.key;
        }
    }
};

struct Pred
{
    int id;
    bool operator()(Elt const& a) const
    {
        note(a);
        switch (id)
        {
            case 0:
                return a.key % 2 == 0;
            case 1:
                return a.key < 1;
            case 2:
                return a.key != 1;
            case 3:
                return true;
            default:
                return false;
        }
    }
};

static std::vector<Elt> read_elts(std::istream& is)
{
    std::size_t n;
    is >> n;
    std::vector<Elt> v(n);
    for (auto& e : v)
        is >> e.key >> e.payload;
    return v;
}

static void print_elts(std::ostream& os, std::vector<Elt> const& v)
{
    for (auto const& e : v)
        os << ' ' << e.key << ' ' << e.payload;
}

static void print_keys(std::ostream& os, std::vector<Elt> const& v)
{
    for (auto const& e : v)
        os << ' ' << e.key;
}

template<size_type N>
static void hyperslab(std::istream& is, std::ostream& os, bool inverse)
{
    celeritas::Array<size_type, N> dims;
    for (auto& d : dims)
        is >> d;
    if (!inverse)
    {
        celeritas::Array<size_type, N> coords;
        for (auto& c : coords)
            is >> c;
        os << celeritas::HyperslabIndexer<N>(dims)(coords);
    }
    else
    {
        size_type index;
        is >> index;
        auto coords = celeritas::HyperslabInverseIndexer<N>(dims)(index);
        for (auto c : coords)
            os << ' ' << c;
    }
}

template<size_type N>
static void ragged(std::istream& is, std::ostream& os, bool inverse)
{
    celeritas::RaggedRightIndexerData<N> data;
    for (auto& o : data.offsets)
        is >> o;
    if (!inverse)
    {
        size_type a, b;
        is >> a >> b;
        os << celeritas::detail::RaggedRightIndexer<N>(data)({a, b});
    }
    else
    {
        size_type index;
        is >> index;
        auto c = celeritas::detail::RaggedRightInverseIndexer<N>(data)(index);
        os << c[0] << ' ' << c[1];
    }
}

template<unsigned int N>
static ll ipow_at(unsigned int n, ll v)
{
    if (n == N)
        return celeritas::ipow<N>(v);
    if constexpr (N > 0)
        return ipow_at<N - 1>(n, v);
    return -1;
}

int main()
{
    std::ios::sync_with_stdio(false);
    std::string line;
    while (std::getline(std::cin, line))
    {
        std::istringstream is(line);
        std::ostringstream os;
        std::string cmd;
        is >> cmd;
        if (cmd == "sort")
        {
            int c;
            is >> c;
            auto v = read_elts(is);
            auto ref = v;
            if (c == 3)
            {
                // SimpleUnitTracker: sort indices by a distance table
                std::size_t const n = v.size();
                std::vector<double> distance(n + 1, 0.5);  // slot n: guard target
                std::vector<size_type> buf(n + 2 * num_guard, static_cast<size_type>(n));
                bool oob = false;
                for (std::size_t i = 0; i < n; ++i)
                {
                    distance[i] = static_cast<double>(v[i].key);
                    buf[num_guard + i] = static_cast<size_type>(i);
                }
                celeritas::sort(buf.data() + num_guard,
                                buf.data() + num_guard + n,
                                [&distance, &oob, n](size_type a, size_type b) {
                                    if (a >= n || b >= n)
                                    {
                                        oob = true;
                                        a = a >= n ? n : a;
                                        b = b >= n ? n : b;
                                    }
                                    return distance[a] < distance[b];
                                });
                std::vector<Elt> out;
                for (std::size_t i = 0; i < n; ++i)
                {
                    size_type j = buf[num_guard + i];
                    out.push_back(j < n ? ref[j] : Elt{-1, sentinel_payload});
                }
                v = out;
                for (std::size_t i = 0; i < buf.size(); ++i)
                    if ((i < num_guard || i >= num_guard + n) && buf[i] != n)
                        oob = true;
                if (oob)
                {
                    std::stable_sort(ref.begin(), ref.end(), Cmp{0});
                    print_elts(os, v);
                    os << " OOB-READ |";
                    print_keys(os, ref);
                    std::cout << os.str() << std::endl;
                    continue;
                }
            }
            else
            {
                Guarded g(v);
                celeritas::sort(g.begin(), g.end(), Cmp{c});
                v = g.values();
                print_elts(os, v);
                g.report(os);
                os << " |";
                std::stable_sort(ref.begin(), ref.end(), Cmp{c});
                print_keys(os, ref);
                std::cout << os.str() << std::endl;
                continue;
            }
            std::stable_sort(ref.begin(), ref.end(), Cmp{c == 3 ? 0 : c});
            print_elts(os, v);
            os << " |";
            print_keys(os, ref);
        }
        else if (cmd == "psort")
        {
            int c;
            std::size_t mid;
            is >> c >> mid;
            auto v = read_elts(is);
            auto ref = v;
            Cmp comp{c};
            Guarded g(v);
            celeritas::detail::partial_sort<Cmp&>(g.begin(), g.begin() + mid, g.end(), comp);
            v = g.values();
            print_elts(os, v);
            g.report(os);
            std::partial_sort(ref.begin(), ref.begin() + mid, ref.end(), comp);
            ref.resize(mid);
            os << " |";
            print_keys(os, ref);
        }
        else if (cmd == "part")
        {
            int p;
            is >> p;
            auto v = read_elts(is);
            auto ref = v;
            Guarded g(v);
            auto it = celeritas::partition(g.begin(), g.end(), Pred{p});
            long idx = static_cast<long>(it - g.begin());
            v = g.values();
            os << idx;
            print_elts(os, v);
            g.report(os, idx);
            auto rit = std::partition(ref.begin(), ref.end(), Pred{p});
            os << " | " << (rit - ref.begin());
        }
        else if (cmd == "lb" || cmd == "ub" || cmd == "lbl" || cmd == "fs")
        {
            int c;
            is >> c;
            auto v = read_elts(is);
            Elt val;
            is >> val.key >> val.payload;
            Guarded g(v);
            Elt const* b = g.begin();
            Elt const* e = g.end();
            if (cmd == "lb")
            {
                os << (celeritas::lower_bound(b, e, val, Cmp{c}) - b);
                g.report(os);
                os << " | " << (std::lower_bound(b, e, val, Cmp{c}) - b);
            }
            else if (cmd == "ub")
            {
                os << (celeritas::upper_bound(b, e, val, Cmp{c}) - b);
                g.report(os);
                os << " | " << (std::upper_bound(b, e, val, Cmp{c}) - b);
            }
            else if (cmd == "lbl")
            {
                os << (celeritas::lower_bound_linear(b, e, val, Cmp{c}) - b);
                g.report(os);
                os << " | " << (std::lower_bound(b, e, val, Cmp{c}) - b);
            }
            else
            {
                os << (celeritas::find_sorted(b, e, val, Cmp{c}) - b);
                g.report(os);
                auto r = std::equal_range(b, e, val, Cmp{c});
                os << " | " << ((r.first == r.second ? e : r.first) - b);
            }
        }
        else if (cmd == "min")
        {
            int c;
            is >> c;
            auto v = read_elts(is);
            Guarded g(v);
            Elt const* b = g.begin();
            Elt const* e = g.end();
            os << (celeritas::min_element(b, e, Cmp{c}) - b);
            g.report(os);
            os << " | " << (std::min_element(b, e, Cmp{c}) - b);
        }
        else if (cmd == "allof" || cmd == "anyof")
        {
            int p;
            is >> p;
            auto v = read_elts(is);
            if (cmd == "allof")
                os << celeritas::all_of(v.begin(), v.end(), Pred{p}) << " | "
                   << std::all_of(v.begin(), v.end(), Pred{p});
            else
                os << celeritas::any_of(v.begin(), v.end(), Pred{p}) << " | "
                   << std::any_of(v.begin(), v.end(), Pred{p});
        }
        else if (cmd == "alladj")
        {
            int c;
            is >> c;
            auto v = read_elts(is);
            Cmp comp{c};
            bool ref = std::adjacent_find(v.begin(),
                                          v.end(),
                                          [&](Elt const& a, Elt const& b) {
                                              return !comp(a, b);
                                          })
                       == v.end();
            os << celeritas::all_adjacent(v.begin(), v.end(), comp) << " | "
               << ref;
        }
        else if (cmd == "srange")
        {
            int a, b, s;
            is >> a >> b >> s;
            for (auto i : celeritas::range(a, b).step(s))
                os << ' ' << i;
            os << " |";
            if (s > 0)
                for (int i = a; i < b; i += s)
                    os << ' ' << i;
            else
                for (int i = b + s; i >= a; i += s)
                    os << ' ' << i;
        }
        else if (cmd == "range")
        {
            int a, b;
            is >> a >> b;
            for (auto i : celeritas::range(a, b))
                os << ' ' << i;
            os << " |";
            for (int i = a; i < b; ++i)
                os << ' ' << i;
        }
        else if (cmd == "hsi" || cmd == "hsc")
        {
            int n;
            is >> n;
            bool inv = cmd == "hsc";
            switch (n)
            {
                case 1: hyperslab<1>(is, os, inv); break;
                case 2: hyperslab<2>(is, os, inv); break;
                case 3: hyperslab<3>(is, os, inv); break;
                case 4: hyperslab<4>(is, os, inv); break;
                case 5: hyperslab<5>(is, os, inv); break;
                default: os << "bad-N";
            }
            os << " |";
        }
        else if (cmd == "rri" || cmd == "rrc")
        {
            int n;  // number of offsets = N + 1
            is >> n;
            bool inv = cmd == "rrc";
            switch (n - 1)
            {
                case 1: ragged<1>(is, os, inv); break;
                case 2: ragged<2>(is, os, inv); break;
                case 3: ragged<3>(is, os, inv); break;
                case 4: ragged<4>(is, os, inv); break;
                case 5: ragged<5>(is, os, inv); break;
                case 6: ragged<6>(is, os, inv); break;
                default: os << "bad-N";
            }
            os << " |";
        }
        else if (cmd == "cdiv")
        {
            unsigned long a, b;
            is >> a >> b;
            os << celeritas::ceil_div(a, b) << " | "
               << static_cast<unsigned long>((static_cast<unsigned __int128>(a) + b - 1) / b);
        }
        else if (cmd == "lwork")
        {
            unsigned long t, w, i;
            is >> t >> w >> i;
            celeritas::LocalWorkCalculator<unsigned long> calc{t, w};
            os << calc(i) << " |";
        }
        else if (cmd == "ipowz")
        {
            unsigned int n;
            ll v;
            is >> n >> v;
            ll ref = 1;
            for (unsigned int i = 0; i < n; ++i)
                ref *= v;
            os << ipow_at<24>(n, v) << " | " << ref;
        }
        else
        {
            os << "unknown-command " << cmd;
        }
        std::cout << os.str() << std::endl;
    }
    return 0;
}
