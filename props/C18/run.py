"""C18 — device-portable algorithms and grid lookups.

Proofs: coq/Properties_C18.v.  Tie: the discrete model (coq/C18/Algorithms.v,
extracted to OCaml) and the real header-only templates are run on the same
command stream (exhaustive permutations / multisets, random longer arrays) and
compared exactly; grid lookups run on binary64 through vm_compute
(coq/C18/RunF.v) against UniformGrid / NonuniformGrid / find_interp /
LinearInterpolator / TwodGridCalculator.  Property oracle: std:: references
computed in the harness plus exact-arithmetic checks done here.
"""
import itertools, math, os, sys
from fractions import Fraction
import vlib
from vlib import hexf, close

HERE = os.path.dirname(os.path.abspath(__file__))
sys.path.insert(0, HERE)
import cont_tie
import math_tie
import pre_audit
PRE = ("From Coq Require Import ZArith List Floats.\n"
       "From Celer Require Import Base.Num Base.NumF C18.Algorithms C18.Grids C18.RunF.\n"
       "Import ListNotations.\nOpen Scope float_scope.\n")


# --------------------------------------------------------------------------
# discrete cases

def elts(keys, payloads=None):
    if payloads is None:
        payloads = range(len(keys))
    return "%d %s" % (len(keys), " ".join("%d %d" % (k, p) for k, p in zip(keys, payloads)))


def all_lists(n, alphabet=(0, 1, 2)):
    return itertools.product(alphabet, repeat=n)


def multisets(n, alphabet=(0, 1, 2)):
    return itertools.combinations_with_replacement(alphabet, n)


def gen_discrete(ctx):
    """returns (lines for model+impl, lines for impl-only (large))"""
    r = ctx.rng
    thorough = ctx.tier != "quick"
    nmax = 8 if thorough else 7
    L = []
    # corpus: shapes that exercise each branch of sift_down / partition
    L += ["sort 0 " + elts([3, 1, 2, 1]), "sort 0 " + elts([]), "sort 0 " + elts([5]),
          "sort 1 " + elts([1, 2]), "part 0 " + elts([1, 2, 3, 4, 6]), "part 0 " + elts([]),
          "min 0 " + elts([]), "lb 0 " + elts([]) + " 1 0"]
    # exhaustive lists over {0,1,2}
    for n in range(0, nmax + 1):
        for ks in all_lists(n):
            for c in (0, 1, 2, 3):
                L.append("sort %d %s" % (c, elts(ks)))
            for p in (0, 1, 2):
                L.append("part %d %s" % (p, elts(ks)))
            for c in (0, 1):
                L.append("min %d %s" % (c, elts(ks)))
            if n <= 5:
                L.append("part 3 " + elts(ks))
                L.append("part 4 " + elts(ks))
                L.append("allof 1 " + elts(ks))
                L.append("anyof 1 " + elts(ks))
                L.append("alladj 0 " + elts(ks))
                for mid in range(0, n + 1):
                    L.append("psort %d %d %s" % (r.choice((0, 1, 2)), mid, elts(ks)))
    # every permutation of 0..n-1, both orders
    for n in range(2, nmax + 1):
        for perm in itertools.permutations(range(n)):
            L.append("sort 0 " + elts(perm))
            if n <= 6 or thorough:
                L.append("sort 1 " + elts(perm))
    # searches on every sorted multiset
    for n in range(0, 9):
        for ks in multisets(n):
            for c in (0, 1):
                kk = list(ks) if c == 0 else list(reversed(ks))
                for v in (-1, 0, 1, 2, 3):
                    for cmd in ("lb", "ub", "lbl", "fs"):
                        L.append("%s %d %s %d 99" % (cmd, c, elts(kk), v))
    # lexicographic comparator on sorted pairs
    for _ in range(300):
        n = r.randrange(0, 12)
        pairs = sorted((r.randrange(4), r.randrange(3)) for _ in range(n))
        v = (r.randrange(-1, 5), r.randrange(-1, 4))
        for cmd in ("lb", "ub", "lbl", "fs"):
            L.append("%s 2 %s %d %d" % (cmd, elts([a for a, _ in pairs], [b for _, b in pairs]), v[0], v[1]))
    # random longer arrays
    nrand = 60 if not thorough else 200
    for i in range(nrand):
        n = r.choice([9, 10, 15, 16, 17, 31, 32, 33, 63, 64, 65, 100, 127, 128, 129, 200, 255, 256, 257])
        if i % 10 == 0:
            n = r.randrange(300, 700 if not thorough else 1500)
        span = r.choice([2, 3, 10, n, 10 * n, 10 ** 6])
        ks = [r.randrange(-span, span) for _ in range(n)]
        shape = r.randrange(5)
        if shape == 1:
            ks.sort()
        elif shape == 2:
            ks.sort(reverse=True)
        elif shape == 3:   # organ pipe
            ks = sorted(ks[: n // 2]) + sorted(ks[n // 2:], reverse=True)
        c = r.choice((0, 1, 2, 3))
        L.append("sort %d %s" % (c, elts(ks)))
        L.append("part %d %s" % (r.choice((0, 1, 2)), elts(ks)))
        L.append("min %d %s" % (r.choice((0, 1)), elts(ks)))
        L.append("psort %d %d %s" % (r.choice((0, 1, 2)), r.randrange(0, n + 1), elts(ks)))
        sk = sorted(ks)
        for _ in range(4):
            v = r.choice([r.choice(sk), r.randrange(-span - 1, span + 1)])
            for cmd in ("lb", "ub", "lbl", "fs"):
                L.append("%s 0 %s %d 0" % (cmd, elts(sk), v))
    # ranges
    for a in range(-5, 6):
        for b in range(a, 7):
            L.append("range %d %d" % (a, b))
            for s in (-4, -3, -2, -1, 1, 2, 3, 4, 7):
                L.append("srange %d %d %d" % (a, b, s))
    # hyperslab indexers: all indices / coordinates of random small shapes
    shapes = [(1,), (4,), (2, 3), (3, 1, 2), (2, 3, 4), (1, 1, 1, 1), (2, 2, 2, 2, 2), (5, 4), (3, 4, 5)]
    for _ in range(12 if not thorough else 60):
        shapes.append(tuple(r.randrange(1, 6) for _ in range(r.randrange(1, 6))))
    for dims in shapes:
        n = len(dims)
        size = math.prod(dims)
        for coords in itertools.product(*[range(dm) for dm in dims]):
            L.append("hsi %d %s %s" % (n, " ".join(map(str, dims)), " ".join(map(str, coords))))
        # [0, size]: the inverse indexer's precondition is index <= hyperslab_size(dims), so the
        # one-past-the-end index is an admitted input (seeded change C18-m5 differed only there)
        for idx in range(size + 1):
            L.append("hsc %d %s %d" % (n, " ".join(map(str, dims)), idx))
        ctx.count("edge:hyperslab-inverse index==size")
    # ragged-right indexers
    for _ in range(25 if not thorough else 120):
        n = r.randrange(1, 7)
        sizes = [r.randrange(1, 5) for _ in range(n)]
        offs = [0]
        for s in sizes:
            offs.append(offs[-1] + s)
        for a in range(n):
            for b in range(sizes[a]):
                L.append("rri %d %s %d %d" % (n + 1, " ".join(map(str, offs)), a, b))
        for idx in range(offs[-1]):
            L.append("rrc %d %s %d" % (n + 1, " ".join(map(str, offs)), idx))
    # integer helpers
    for a in range(0, 41):
        for b in range(1, 13):
            L.append("cdiv %d %d" % (a, b))
    for _ in range(200):
        b = r.randrange(1, 3000)
        a = r.choice([r.randrange(0, 30000), b * r.randrange(0, 12), b * r.randrange(0, 12) + 1])
        L.append("cdiv %d %d" % (a, b))
        w = r.randrange(1, 40)
        L.append("lwork %d %d %d" % (r.randrange(0, 500), w, r.randrange(0, w)))
    for n in range(0, 25):
        for v in (-3, -2, -1, 0, 1, 2, 3):
            L.append("ipowz %d %d" % (n, v))
        if n <= 18:
            L.append("ipowz %d %d" % (n, r.randrange(4, 11)))
    # implementation-only (too long for the list-based model): vs std::
    B = []
    for i in range(20 if not thorough else 80):
        n = r.randrange(2000, 10001)
        span = r.choice([3, 100, 10 ** 9])
        ks = [r.randrange(-span, span) for _ in range(n)]
        B.append("sort %d %s" % (r.choice((0, 1, 2, 3)), elts(ks)))
        B.append("part %d %s" % (r.choice((0, 1, 2)), elts(ks)))
        B.append("min %d %s" % (r.choice((0, 1)), elts(ks)))
        sk = sorted(ks)
        v = r.choice(sk)
        for cmd in ("lb", "ub", "lbl", "fs"):
            B.append("%s 0 %s %d 0" % (cmd, elts(sk), v))
    for _ in range(200):
        b = r.randrange(1, 2 ** 64)
        a = r.choice([r.randrange(0, 2 ** 64), 2 ** 64 - 1, (2 ** 64 - 1) // b * b])
        B.append("cdiv %d %d" % (a, b))
    return L, B


def parse_elts(tok):
    return [(int(tok[i]), int(tok[i + 1])) for i in range(0, len(tok), 2)]


def discrete_oracle(line, impl, ref):
    """property oracle on the implementation's output; returns message or None"""
    t = line.split()
    cmd = t[0]
    oob = [x for x in impl if x.startswith("OOB-")]
    if oob:
        return "%s accessed memory outside [first, last): %s (guard elements around the array)" % (cmd, " ".join(oob))
    if cmd in ("sort", "psort", "part"):
        off = 3 if cmd == "psort" else 2
        n = int(t[off])
        inp = parse_elts(t[off + 1: off + 1 + 2 * n])
    if cmd == "sort":
        out = parse_elts(impl)
        if sorted(out) != sorted(inp):
            return "sort output is not a permutation of its input"
        if [k for k, _ in out] != [int(x) for x in ref]:
            return "sort output differs from std::stable_sort keys"
        c = int(t[1])
        if c == 2 and out != sorted(inp):
            return "sort output not sorted lexicographically"
    elif cmd == "psort":
        out = parse_elts(impl)
        mid = int(t[2])
        if sorted(out) != sorted(inp):
            return "partial_sort output is not a permutation of its input"
        if [k for k, _ in out[:mid]] != [int(x) for x in ref]:
            return "partial_sort prefix differs from std::partial_sort keys"
    elif cmd == "part":
        k = int(impl[0])
        out = parse_elts(impl[1:])
        if sorted(out) != sorted(inp):
            return "partition output is not a permutation of its input"
        if k != int(ref[0]):
            return "partition point differs from std::partition"
        pid = int(t[1])
        pr = {0: lambda a: a % 2 == 0, 1: lambda a: a < 1, 2: lambda a: a != 1,
              3: lambda a: True}.get(pid, lambda a: False)
        if not all(pr(a) for a, _ in out[:k]) or any(pr(a) for a, _ in out[k:]):
            return "partition output is not partitioned at the returned point"
    elif cmd in ("lb", "ub", "lbl", "fs", "min", "allof", "anyof", "alladj", "srange", "range",
                 "cdiv", "ipowz"):
        if impl != ref:
            return "%s differs from the std::/exact reference: %s vs %s" % (cmd, impl, ref)
    elif cmd == "hsi":
        n = int(t[1]); dims = list(map(int, t[2:2 + n])); co = list(map(int, t[2 + n:2 + 2 * n]))
        idx = 0
        for dm, c in zip(dims, co):
            idx = idx * dm + c
        if int(impl[0]) != idx:
            return "hyperslab index differs from the row-major reference"
    elif cmd == "hsc":
        n = int(t[1]); dims = list(map(int, t[2:2 + n])); idx = int(t[2 + n])
        # mixed-radix digits; the LEADING digit is the whole remaining quotient (== dims[0] at idx == size)
        co, q = [], idx
        for dm in reversed(dims[1:]):
            co.append(q % dm); q //= dm
        co.append(q)
        got = list(map(int, impl))
        if got != list(reversed(co)):
            return "hyperslab coordinates of index %d (size %d) are %s, the exact mixed-radix reference gives %s" % (
                idx, math.prod(dims), got, list(reversed(co)))
        flat = 0
        for dm, c in zip(dims, got):
            flat = flat * dm + c
        if flat != idx:
            return "hyperslab coordinates %s of index %d flatten back to %d" % (got, idx, flat)
    elif cmd == "rri":
        n = int(t[1]); offs = list(map(int, t[2:2 + n])); a, b = int(t[2 + n]), int(t[3 + n])
        if int(impl[0]) != offs[a] + b:
            return "ragged index differs from the reference"
    elif cmd == "rrc":
        n = int(t[1]); offs = list(map(int, t[2:2 + n])); idx = int(t[2 + n])
        a = max(i for i in range(n - 1) if offs[i] <= idx)
        if list(map(int, impl)) != [a, idx - offs[a]]:
            return "ragged coordinates differ from the reference"
    elif cmd == "lwork":
        tot, w, i = map(int, t[1:4])
        if int(impl[0]) != tot // w + (1 if i < tot % w else 0):
            return "local work differs from the reference"
    return None


def run_discrete(ctx, algos_exe, model_exe):
    L, B = gen_discrete(ctx)
    inp = "\n".join(L) + "\n"
    # the harness flushes one line per command: if it dies (segfault / sanitizer abort) the
    # command after the last complete line is the failing input; report it and go on
    allc = L + B
    ilines, start, crashes = [], 0, 0
    env = {"ASAN_OPTIONS": "detect_leaks=0:exitcode=77", "UBSAN_OPTIONS": "print_stacktrace=0"}
    while start < len(allc):
        rc, out = ctx.run_harness(algos_exe, input="\n".join(allc[start:]) + "\n", timeout=900, env=env)
        got = [l for l in out.splitlines() if "|" in l or l.startswith("unknown-command")]
        if rc == 0 and len(got) == len(allc) - start:
            ilines += got
            break
        good = got[:len(allc) - start - 1]
        ilines += good
        bad = start + len(good)
        crashes += 1
        report = [l for l in out.splitlines() if "ERROR" in l or "runtime error" in l or "SUMMARY" in l][:3]
        ctx.violation("oracle", "harness died (rc=%d) inside '%s': %s" % (rc, allc[bad].split()[0], "; ".join(report)[:300] or "crash"),
                      {"command": allc[bad][:4000], "harness_output_tail": out[-1200:]})
        ilines.append("CRASH |")
        start = bad + 1
        if crashes >= 4:
            ilines += ["SKIPPED |"] * (len(allc) - len(ilines))
            break
    rc, mout = vlib.sh([model_exe], input=inp, timeout=1500)
    mlines = mout.splitlines()
    if rc != 0 or len(mlines) != len(L):
        raise RuntimeError("extracted model failed rc=%d (%d lines for %d commands): %s" % (rc, len(mlines), len(L), mout[-500:]))
    nviol = {}
    for i, line in enumerate(L + B):
        impl_s, _, ref_s = ilines[i].partition("|")
        impl, ref = impl_s.split(), ref_s.split()
        if impl in (["CRASH"], ["SKIPPED"]):
            continue
        cmd = line.split(None, 1)[0]
        if nviol.get(cmd, 0) >= 2:
            continue
        ctx.count("cmd:" + cmd)
        nontriv = len(line) > 12
        ctx.case(line if len(line) < 200 else (cmd, hash(line)), nontrivial=nontriv)
        if i < 3 or (i % 9973 == 0):
            ctx.sample({"command": line[:120], "impl": ilines[i][:120], "model": mlines[i][:120] if i < len(L) else None})
        msg = discrete_oracle(line, impl, ref)
        if msg:
            nviol[cmd] = nviol.get(cmd, 0) + 1
            ctx.violation("oracle", msg, {"command": line[:4000], "implementation": ilines[i][:4000],
                                           "model": mlines[i][:4000] if i < len(L) else None})
        elif i < len(L) and mlines[i].split() != impl:
            nviol[cmd] = nviol.get(cmd, 0) + 1
            ctx.violation("correspondence", "model and implementation differ for '%s' (the std:: oracle accepts the implementation)" % cmd,
                          {"command": line[:4000], "implementation": ilines[i][:4000], "model": mlines[i][:4000],
                           "theorem": "Properties_C18.v is about a model that no longer matches the code"},
                          no_input=True)
    return len(L), len(B)


# --------------------------------------------------------------------------
# float grids

def ulps(x, k):
    for _ in range(abs(k)):
        x = math.nextafter(x, math.inf if k > 0 else -math.inf)
    return x


def fl(xs):
    return "[" + "; ".join(hexf(x) for x in xs) + "]"


def hx(x):
    return float(x).hex()


def gen_grids(ctx):
    r = ctx.rng
    thorough = ctx.tier != "quick"
    cases = []   # (kind, payload)
    # corpus: the replay of finding F3 (UniformGrid::find one ulp below back())
    cases.append(("ufind", (0.0, 1.0, 4, math.nextafter(1.0, 0.0))))
    cases.append(("finterpu", (0.0, 1.0, 4, math.nextafter(1.0, 0.0))))
    # extreme values admitted by the preconditions: value == front(), 2-point grids
    for (f_, b_, n_) in ((0.0, 1.0, 2), (-3.0, 5.0, 2), (1.0, 2.0, 3)):
        cases.append(("ufind", (f_, b_, n_, f_))); cases.append(("finterpu", (f_, b_, n_, f_)))
        ctx.count("edge:grid find value==front"); ctx.count("edge:find_interp value==front")
        if n_ == 2:
            ctx.count("edge:uniform grid size==2")
    for g_ in ([1.0, 2.0], [-1.0, math.nextafter(-1.0, 0.0)], [0.5, 1.5, 4.0]):
        cases.append(("nfind", (g_, g_[0]))); cases.append(("finterpn", (g_, g_[0])))
        ctx.count("edge:grid find value==front"); ctx.count("edge:find_interp value==front")
        if len(g_) == 2:
            ctx.count("edge:nonuniform grid size==2")
    cases.append(("twod", ([0.0, 1.0], [1.0, 2.0], [1.0, 2.0, 3.0, 4.0], 0.0, 1.0)))
    ctx.count("edge:twod x==front"); ctx.count("edge:twod y==front")
    ngrids = 24 if not thorough else 200
    for gi in range(ngrids):
        kind = r.randrange(4)
        if kind == 0:      # log-energy grids like the physics tables
            front = math.log(10 ** r.uniform(-6, 1)); back = front + r.uniform(0.5, 30)
        elif kind == 1:
            front = r.choice([0.0, -1.0, 1.0, r.uniform(-10, 10)]); back = front + 10 ** r.uniform(-3, 4)
        elif kind == 2:
            front = 0.0; back = float(r.randrange(1, 50))
        else:
            front = -(10 ** r.uniform(-8, 8)); back = 10 ** r.uniform(-8, 8)
        size = r.choice([2, 3, 4, 5, 7, 8, 9, 33, 64, 100, 129, 200, r.randrange(2, 201)])
        delta = (back - front) / (size - 1)
        nodes = {0, 1, size - 2, size - 1}
        while len(nodes) < min(size, 7):
            nodes.add(r.randrange(size))
        vs = [front, math.nextafter(back, -math.inf), ulps(back, -2)]
        for i in sorted(nodes):
            x = front + delta * i
            for k in (-2, -1, 0, 1, 2):
                vs.append(ulps(x, k))
        for _ in range(3):
            vs.append(r.uniform(front, back))
        for v in vs:
            if front <= v < back:
                cases.append(("ufind", (front, back, size, v)))
                if r.random() < 0.35:
                    cases.append(("finterpu", (front, back, size, v)))
    for gi in range(24 if not thorough else 150):
        n = r.choice([2, 3, 4, 5, 8, 16, 17, 40 if thorough else 24])
        kind = r.randrange(3)
        if kind == 0:
            g = sorted(set(r.uniform(-100, 100) for _ in range(n)))
        elif kind == 1:
            g = sorted(set(10 ** r.uniform(-8, 8) for _ in range(n)))
        else:   # tightly spaced points
            x = r.uniform(-5, 5); g = [x]
            for _ in range(n - 1):
                g.append(ulps(g[-1], r.choice([1, 1, 2, 3, 1000])))
        if len(g) < 2:
            continue
        vs = []
        for x in g:
            for k in (-1, 0, 1):
                vs.append(ulps(x, k))
        for _ in range(3):
            vs.append(r.uniform(g[0], g[-1]))
        for v in vs:
            if g[0] <= v < g[-1]:
                cases.append(("nfind", (g, v)))
                cases.append(("finterpn", (g, v)))
    for _ in range(150 if not thorough else 1000):
        xl = r.choice([0.0, 1.0, r.uniform(-10, 10), 10 ** r.uniform(-6, 6)])
        xr = xl + 10 ** r.uniform(-6, 6)
        yl = r.choice([0.0, 1.0, r.uniform(-10, 10), 10 ** r.uniform(-6, 6)])
        yr = r.choice([0.0, yl, r.uniform(-10, 10), 10 ** r.uniform(-6, 6)])
        x = r.choice([xl, xr, math.nextafter(xl, xr), math.nextafter(xr, xl), r.uniform(xl, xr)])
        cases.append(("interp", (xl, yl, xr, yr, x)))
    for _ in range(12 if not thorough else 60):
        nx, ny = r.randrange(2, 6), r.randrange(2, 6)
        xs = sorted(set(r.uniform(-10, 10) for _ in range(nx)))
        ys = sorted(set(10 ** r.uniform(-3, 3) for _ in range(ny)))
        if len(xs) < 2 or len(ys) < 2:
            continue
        vals = [r.uniform(0, 10) for _ in range(len(xs) * len(ys))]
        pts = [(x, y) for x in xs[:-1] for y in ys[:-1]]
        pts += [(math.nextafter(xs[-1], -math.inf), math.nextafter(ys[-1], -math.inf))]
        pts += [(r.uniform(xs[0], xs[-1]), r.uniform(ys[0], ys[-1])) for _ in range(4)]
        for (x, y) in pts:
            if xs[0] <= x < xs[-1] and ys[0] <= y < ys[-1]:
                cases.append(("twod", (xs, ys, vals, x, y)))
    return cases


def grid_line(kind, p):
    if kind in ("ufind", "finterpu"):
        return "%s %s %s %d %s" % (kind, hx(p[0]), hx(p[1]), p[2], hx(p[3]))
    if kind in ("nfind", "finterpn"):
        return "%s %d %s %s" % (kind, len(p[0]), " ".join(map(hx, p[0])), hx(p[1]))
    if kind == "interp":
        return "interp " + " ".join(map(hx, p))
    xs, ys, vals, x, y = p
    return "twod %d %s %d %s %d %s %s %s" % (len(xs), " ".join(map(hx, xs)), len(ys), " ".join(map(hx, ys)),
                                             len(vals), " ".join(map(hx, vals)), hx(x), hx(y))


def grid_expr(kind, p):
    if kind == "ufind":
        return "run_ufind %s %s %d %s" % (hexf(p[0]), hexf(p[1]), p[2], hexf(p[3]))
    if kind == "finterpu":
        return "run_finterp_u %s %s %d %s" % (hexf(p[0]), hexf(p[1]), p[2], hexf(p[3]))
    if kind == "nfind":
        return "run_nfind %s %s" % (fl(p[0]), hexf(p[1]))
    if kind == "finterpn":
        return "run_finterp_n %s %s" % (fl(p[0]), hexf(p[1]))
    if kind == "interp":
        return "run_interp " + " ".join(hexf(x) for x in p)
    xs, ys, vals, x, y = p
    return "run_twod %s %s %s %s %s" % (fl(xs), fl(ys), fl(vals), hexf(x), hexf(y))


def pf(tok):
    return float(tok) if tok in ("nan", "inf", "-inf") else float.fromhex(tok)


def grid_oracle(kind, p, tok):
    """executable statement of the property on the implementation's output"""
    if kind == "ufind":
        front, back, size, v = p
        b = int(tok[0])
        if not (0 <= b and b + 1 < size):
            return "UniformGrid::find returned bin %d, violating bin + 1 < size (size %d)" % (b, size)
        # exact-arithmetic reference bin, with the float grid spacing
        delta = Fraction(back - front) / (size - 1)
        exact = int((Fraction(v) - Fraction(front)) // delta)
        if abs(b - min(exact, size - 2)) > 1:
            return "UniformGrid::find bin %d is not adjacent to the exact bin %d" % (b, exact)
        if b != min(exact, size - 2):
            # accepted only at a knife edge: v within a few ulp of the node between the two bins
            node = Fraction(front) + delta * max(b, exact)
            scale = max(abs(front), abs(back), abs(v))
            if abs(Fraction(v) - node) > 8 * Fraction(math.ulp(scale)):
                return "UniformGrid::find bin %d differs from exact bin %d away from a node" % (b, exact)
            return "knife"
    elif kind == "finterpu":
        front, back, size, v = p
        b, f = int(tok[0]), pf(tok[1])
        if not (0 <= b and b + 1 < size):
            return "find_interp index %d out of range (size %d)" % (b, size)
        if not (-1e-9 <= f <= 1 + 1e-9):
            return "find_interp fraction %r outside [0,1]" % f
    elif kind == "nfind":
        g, v = p
        i = int(tok[0])
        if not (0 <= i and i + 1 < len(g) and g[i] <= v < g[i + 1]):
            return "NonuniformGrid::find index %d does not bracket the value" % i
    elif kind == "finterpn":
        g, v = p
        i, f = int(tok[0]), pf(tok[1])
        if not (0 <= i and i + 1 < len(g) and g[i] <= v < g[i + 1]):
            return "find_interp index %d does not bracket the value" % i
        if not (0 <= f <= 1):
            return "find_interp fraction %r outside [0,1]" % f
        ex = (Fraction(v) - Fraction(g[i])) / (Fraction(g[i + 1]) - Fraction(g[i]))
        if abs(Fraction(f) - ex) > Fraction(1, 10 ** 9) + 4 * Fraction(math.ulp(max(abs(g[i]), abs(g[i + 1])))) / (Fraction(g[i + 1]) - Fraction(g[i])):
            return "find_interp fraction %r differs from the exact fraction %r" % (f, float(ex))
    elif kind == "interp":
        xl, yl, xr, yr, x = p
        y = pf(tok[0])
        ex = Fraction(yl) + (Fraction(yr) - Fraction(yl)) * (Fraction(x) - Fraction(xl)) / (Fraction(xr) - Fraction(xl))
        tol = 1e-12 * max(abs(yl), abs(yr)) + 1e-300
        if not math.isfinite(y) or abs(Fraction(y) - ex) > Fraction(tol):
            return "LinearInterpolator result %r differs from the exact line %r" % (y, float(ex))
    elif kind == "twod":
        xs, ys, vals, x, y = p
        z = pf(tok[0])
        if not (min(vals) - 1e-9 <= z <= max(vals) + 1e-9):
            return "bilinear interpolation outside the range of the node values"
        if x in xs[:-1] and y in ys[:-1]:
            node = vals[xs.index(x) * len(ys) + ys.index(y)]
            if not close(z, node, rtol=1e-12):
                return "bilinear interpolation at a node differs from the node value"
    return None


def run_grids(ctx, grids_exe):
    cases = gen_grids(ctx)
    inp = "".join(grid_line(k, p) + "\n" for k, p in cases)
    rc, out = ctx.run_harness(grids_exe, input=inp)
    lines = out.splitlines()
    if rc != 0 or len(lines) != len(cases):
        raise vlib.BuildError("grids harness failed rc=%d" % rc, out[-1500:])
    mvals = batched_eval(ctx, "grids", PRE, [(k, grid_expr(k, p)) for k, p in cases])
    nviol = {}
    for (k, p), line, mv in zip(cases, lines, mvals):
        tok = line.split()
        if nviol.get(k, 0) >= 2:
            continue
        ctx.count("grid:" + k)
        ctx.case((k, repr(p)[:300]), nontrivial=True)
        if ctx.evaluations % 701 == 0:
            ctx.sample({"grid_case": k, "input": repr(p)[:200], "impl": line, "model": repr(mv)[:120]})
        msg = grid_oracle(k, p, tok)
        if msg == "knife":
            ctx.count("knife-edge-bin-accepted")
            msg = None
        if msg:
            nviol[k] = nviol.get(k, 0) + 1
            ctx.violation("oracle", msg, {"kind": k, "input": [hx(x) if isinstance(x, float) else x for x in flatten(p)],
                                           "implementation": line, "model": repr(mv)})
        else:
            if k == "ufind":
                b = int(tok[0])
                agree = (mv[0] == b and close(mv[1], pf(tok[1]), 1e-12) and close(mv[2], pf(tok[2]), 1e-12))
            elif k in ("finterpu", "finterpn"):
                scale = 1e-9
                agree = mv[0] == int(tok[0]) and close(mv[1], pf(tok[1]), rtol=1e-9, atol=1e-12)
            elif k == "nfind":
                agree = mv == int(tok[0])
            elif k == "interp":
                agree = close(mv, pf(tok[0]), rtol=1e-9, atol=1e-13 * max(abs(p[1]), abs(p[3])))
            else:
                agree = close(mv, pf(tok[0]), rtol=1e-9, atol=1e-13 * max(map(abs, p[2])))
            if not agree:
                nviol[k] = nviol.get(k, 0) + 1
                ctx.violation("correspondence", "grid model and implementation differ for %s" % k,
                              {"kind": k, "input": [hx(x) if isinstance(x, float) else x for x in flatten(p)],
                               "implementation": line, "model": repr(mv),
                               "theorem": "Properties_C18.v is about a model that no longer matches the code"},
                              no_input=True)
    return len(cases)


def batched_eval(ctx, name, pre, kexprs, batch=80, files=4):
    """Evaluate many expressions with few vm_compute commands: expressions of
    the same kind (hence the same type) are grouped into list literals."""
    order = {}
    for i, (k, e) in enumerate(kexprs):
        order.setdefault(k, []).append(i)
    batches, index = [], []
    for k, idxs in order.items():
        for s in range(0, len(idxs), batch):
            part = idxs[s:s + batch]
            batches.append("[" + ";\n ".join("(%s)" % kexprs[i][1] for i in part) + "]")
            index.append(part)
    vals = ctx.coq_eval(name, pre, batches, chunk=max(1, (len(batches) + files - 1) // files))
    out = [None] * len(kexprs)
    for part, vs in zip(index, vals):
        if len(vs) != len(part):
            raise RuntimeError("batched_eval: expected %d values, got %d" % (len(part), len(vs)))
        for i, v in zip(part, vs):
            out[i] = v
    return out


def flatten(p):
    out = []
    for x in p:
        if isinstance(x, (list, tuple)):
            out += list(x)
        else:
            out.append(x)
    return out


def run(ctx):
    ctx.trusted += [
        "hand-written model coq/C18/Algorithms.v + coq/C18/Grids.v, tied by differential runs (props/C18/run.py, harness/algos.cc, harness/grids.cc)",
        "OCaml extraction (ExtrOcamlBasic only) of the discrete model; vm_compute for the float grid model",
        "std:: algorithms of libstdc++ and Python exact rationals as reference oracles",
        "gap R vs binary64 rounding for the grid theorems (the index law of UniformGrid::find is proved under an explicit rounding-error model, see NOTES.md)",
    ]
    ctx.assumptions += [
        "comparators are strict weak orders (C++ named requirement Compare); signed, non-overflowing range counters",
        "grids satisfy their documented validity conditions (size >= 2, front < back, strictly increasing non-uniform grids)",
    ]
    proofs_ok = ctx.coq_prove("Properties_C18.v")
    ok, log = ctx.coq_build(["C18/Run.vo", "C18/RunF.vo", "C18/RunC.vo", "C18/RunM.vo"])
    if not ok:
        ctx.violation("model-broken", "the executable model no longer compiles", {"log": log[-2000:]}, no_input=True)
        return
    ctx.build_libs(["corecel"])
    algos = ctx.compile_harness([os.path.join(HERE, "harness", "algos.cc")], "algos",
                                extra=["-fsanitize=address,undefined", "-fno-sanitize-recover=undefined", "-fno-omit-frame-pointer"])
    grids = ctx.compile_harness([os.path.join(HERE, "harness", "grids.cc")], "grids", libs=["corecel"])
    model = ctx.ocaml_extract("C18/Extract.v", os.path.join(HERE, "harness", "driver.ml"), "c18model_exe", "c18model")
    nl, nb = run_discrete(ctx, algos, model)
    ctx.log("discrete: %d commands model+impl+std, %d impl+std only" % (nl, nb))
    ng = run_grids(ctx, grids)
    ctx.log("grids: %d float cases" % ng)
    nc = cont_tie.run(ctx, batched_eval, vlib.REPO)
    ctx.log("range/span: %d cases" % nc)
    nm = math_tie.run(ctx, batched_eval)
    ctx.log("scalar helpers: %d cases" % nm)
    pre_audit.report(ctx, vlib.REPO)
    if not proofs_ok and not ctx.violations:
        ctx.violation("proof-broken", "Properties_C18.v no longer checks", ctx.broken_proof, no_input=True)
    ctx.coverage["rule"] = ("discrete cases = command lines (algorithm, comparator/predicate id, array): exhaustive lists over {0,1,2} "
                            "up to length 7 (8 thorough), every permutation up to that length, every sorted multiset up to length 8 "
                            "x 5 probe values, random longer arrays from the VERIF_SEED PRNG; float cases = (grid, value) with values "
                            "at grid nodes +-1,2 ulp and at the ends; distinct by full input")
    ctx.coverage["traces_validated_against_impl"] = nl + nb + ng + nc + nm
