"""C10 -- CSG logic rewriting / encoding preserve the region's boolean function.

1. Coq proofs (coq/Properties_C10.v) about the Gallina model coq/C10/*.v.
2. Exact differential: generated op sequences are executed by the extracted
   model (OCaml, ExtrOcamlBasic only) and by the real liborange through its
   public interfaces (props/C10/harness/csg.cc); every printed record (tree
   after each op, returned ids/nodes, logic vectors, strings, flags,
   evaluator results) must be identical.
3. Property oracle on the implementation's own outputs (independent Python
   evaluator of the printed trees): truth tables are preserved by every
   rewriting, encodings evaluate like the node, a volume not flagged
   "internal" goes false when any one of its faces flips.
"""
import glob
import os
import re
import shutil
import subprocess

import vlib

HERE = os.path.dirname(os.path.abspath(__file__))

# ---------------------------------------------------------------------------
# parsing of printed trees / nodes

NODE_RE = re.compile(r"(?:(\d+): )?(true|false|not\{(\d+)\}|->\{(\d+)\}|surface (\d+)|(all|any)\{([\d,]*)\})")


def parse_node_str(s):
    m = NODE_RE.fullmatch(s.strip())
    if not m:
        raise ValueError("bad node string %r" % s)
    return _node_of_match(m)


def _node_of_match(m):
    txt = m.group(2)
    if txt == "true":
        return ("T",)
    if txt == "false":
        return ("F",)
    if m.group(3) is not None:
        return ("N", int(m.group(3)))
    if m.group(4) is not None:
        return ("A", int(m.group(4)))
    if m.group(5) is not None:
        return ("S", int(m.group(5)))
    ids = [int(x) for x in m.group(7).split(",") if x != ""]
    return ("J", m.group(6), ids)


def parse_tree_line(line):
    """'t {0: true, ..., } V 3,4' -> (nodes, volumes)"""
    assert line.startswith("t {"), line
    body, _, vols = line[2:].rpartition(" V")
    nodes = []
    for m in NODE_RE.finditer(body):
        if m.group(1) is None:
            continue
        assert int(m.group(1)) == len(nodes), line
        nodes.append(_node_of_match(m))
    volumes = [int(x) for x in vols.strip().split(",") if x.strip() != ""]
    return nodes, volumes


def node_spec(n):
    """python node -> op-text node spec"""
    k = n[0]
    if k in "TF":
        return k
    if k in "NAS":
        return "%s %d" % (k, n[1])
    return "J %s %d %s" % ("and" if n[1] == "all" else "or", len(n[2]), " ".join(map(str, n[2])))


def children(n):
    if n[0] in "NA":
        return [n[1]]
    if n[0] == "J":
        return n[2]
    return []


# ---------------------------------------------------------------------------
# independent evaluator: truth tables as big-int bit vectors over a sigma list

class Bad(Exception):
    pass


class Sigmas:
    def __init__(self, nsurf, rng):
        self.nsurf = nsurf
        if nsurf <= 12:
            self.n = 1 << nsurf
            self.full = True
            self.cols = []
            for s in range(nsurf):
                blk = (1 << (1 << s)) - 1          # 2^s ones
                period = 1 << (s + 1)
                c = 0
                for start in range(1 << s, self.n, period):
                    c |= blk << start
                self.cols.append(c)
        else:
            self.n = 4096
            self.full = False
            self.cols = [rng.getrandbits(self.n) for _ in range(nsurf)]
        self.ALL = (1 << self.n) - 1

    def col(self, s):
        return self.cols[s] if s < self.nsurf else 0

    def sigma_str(self, j):
        return "".join("1" if (self.col(s) >> j) & 1 else "0" for s in range(self.nsurf)) or "0"

    def flipped(self, s):
        """a Sigmas whose assignment j is assignment j of self with surface s flipped"""
        o = object.__new__(Sigmas)
        o.nsurf, o.n, o.full, o.ALL = self.nsurf, self.n, self.full, self.ALL
        o.cols = list(self.cols)
        o.cols[s] = self.ALL & ~self.cols[s]
        return o


def eval_node(n, val, sg):
    k = n[0]
    if k == "T":
        return sg.ALL
    if k == "F":
        return 0
    if k == "A":
        return val(n[1])
    if k == "N":
        return sg.ALL & ~val(n[1])
    if k == "S":
        return sg.col(n[1])
    if n[1] == "all":
        v = sg.ALL
        for c in n[2]:
            v &= val(c)
        return v
    v = 0
    for c in n[2]:
        v |= val(c)
    return v


def tables(nodes, sg):
    """truth table of every node (recursive, detects cycles / dangling ids)"""
    T = [None] * len(nodes)
    state = [0] * len(nodes)

    def ev(i):
        if i >= len(nodes):
            raise Bad("dangling node id %d" % i)
        if state[i] == 2:
            return T[i]
        if state[i] == 1:
            raise Bad("cycle through node %d" % i)
        state[i] = 1
        T[i] = eval_node(nodes[i], ev, sg)
        state[i] = 2
        return T[i]
    for i in range(len(nodes)):
        ev(i)
    return T


def topo_sorted(nodes):
    return all(c < i for i, n in enumerate(nodes) for c in children(n))


def reach_surfaces(nodes, i, seen=None):
    seen = set() if seen is None else seen
    out = set()
    stack = [i]
    while stack:
        j = stack.pop()
        if j in seen or j >= len(nodes):
            continue
        seen.add(j)
        n = nodes[j]
        if n[0] == "S":
            out.add(n[1])
        stack += children(n)
    return out


def eval_postfix(toks, vals, ALL):
    st = []
    for t in toks:
        if t == "*":
            st.append(ALL)
        elif t == "~":
            st.append(ALL & ~st.pop())
        elif t in "&|":
            a = st.pop()
            b = st.pop()
            st.append(a & b if t == "&" else a | b)
        else:
            st.append(vals[int(t)])
    if len(st) != 1:
        raise Bad("postfix does not reduce to one value")
    return st[0]


def eval_infix_string(s, sg):
    """evaluate 'all(+0, !any(-1, T))' style strings"""
    pos = 0

    def parse():
        nonlocal pos
        if s[pos] == "!":
            pos += 1
            return sg.ALL & ~parse()
        if s[pos] == "T":
            pos += 1
            return sg.ALL
        if s[pos] == "F":
            pos += 1
            return 0
        if s[pos] in "+-":
            neg = s[pos] == "-"
            pos += 1
            m = re.match(r"\d+", s[pos:])
            pos += m.end()
            v = sg.col(int(m.group(0)))
            return (sg.ALL & ~v) if neg else v
        if s.startswith("all(", pos) or s.startswith("any(", pos):
            is_all = s[pos] == "a" and s[pos + 1] == "l"
            pos += 4
            v = parse()
            while s.startswith(", ", pos):
                pos += 2
                w = parse()
                v = (v & w) if is_all else (v | w)
            if s[pos] != ")":
                raise Bad("infix string: expected ')'")
            pos += 1
            return v
        raise Bad("infix string: unexpected %r" % s[pos:pos + 8])
    v = parse()
    if pos != len(s):
        raise Bad("infix string: trailing text")
    return v


# ---------------------------------------------------------------------------
# the model process (interactive)

class Model:
    def __init__(self, exe, width):
        self.p = subprocess.Popen([exe, "step", str(width)],
                                  stdin=subprocess.PIPE, stdout=subprocess.PIPE,
                                  text=True, bufsize=1)

    def step(self, line):
        self.p.stdin.write(line + "\n")
        self.p.stdin.flush()
        out = []
        while True:
            l = self.p.stdout.readline()
            if l == "":
                raise RuntimeError("model process died on: " + line)
            l = l.rstrip("\n")
            if l == ".":
                return out
            out.append(l)

    def close(self):
        try:
            self.p.stdin.close()
            self.p.wait(timeout=5)
        except Exception:
            self.p.kill()


NLINES = {"i": 2, "v": 2, "x": 2, "y": 2, "r": 2, "m": 2, "u": 2, "d": 2, "p": 1, "s": 1, "g": 1, "e": 1, "q": 0}
MUTATING = set("ivxyrmud")


class Seq:
    """one generated sequence: ops (text), expected model lines per op"""
    def __init__(self, nsurf, tag):
        self.nsurf = nsurf
        self.tag = tag
        self.ops = []
        self.exp = []        # list of list of lines (model), same length as ops
        self.nodes = [("T",), ("N", 0)]
        self.vols = []
        self.topo_fail = []
        self.skipped = 0
        self.ended = False
        self.dm_assert = []   # (tree nodes, vols) where the model's DeMorgan hit an assertion site

    def text(self):
        return " | ".join(self.ops)


def apply_op(model, sq, op, ctx=None, force=False):
    """run one op on the model; record it unless the model hit an assertion site.
    force=True (witness sequences only): keep the op although the model meets an assertion
    site -- from there on the model is not consulted and nothing is compared for this sequence"""
    if sq.ended:
        return None
    if getattr(sq, "model_stopped", None) is not None:
        sq.ops.append(op)
        sq.exp.append(None)
        return None
    lines = model.step(op)
    if force and any(l.startswith("! assert") for l in lines):
        sq.model_stopped = len(sq.ops)
        sq.ops.append(op)
        sq.exp.append(None)
        return None
    if any(l.startswith("! assert") for l in lines):
        sq.skipped += 1
        if ctx is not None:
            ctx.count("model-precondition-skip:" + op.split()[0])
        if op == "d":
            sq.dm_assert.append((list(sq.nodes), list(sq.vols)))
        return None
    if any(l.startswith("! fuel") for l in lines):
        if not topo_sorted(sq.nodes):
            # cyclic / order-broken tree (R1): the real code does not terminate either; never sent
            sq.skipped += 1
            if ctx is not None:
                ctx.count("model-fuel-on-order-broken-tree:" + op.split()[0])
            return None
        raise RuntimeError("model ran out of fuel on %r after %r" % (op, sq.text()))
    if any(l.startswith("c topo") for l in lines):
        sq.topo_fail.append(len(sq.ops))
    sq.ops.append(op)
    sq.exp.append(lines)
    if any(l.startswith("! throw") for l in lines):
        sq.ended = True
        return lines
    for l in lines:
        if l.startswith("t "):
            sq.nodes, sq.vols = parse_tree_line(l)
    if not force and not topo_sorted(sq.nodes):
        # the class invariant is gone (R1, after a user exchange): everything that recurses over
        # the tree may now loop or overflow the stack on the real code -- stop the sequence here
        # (this op is still sent and checked); the @R1 corpus lines cover the consequences
        sq.ended = True
        if ctx is not None:
            ctx.count("sequence-ended-topological-order-lost")
    return lines


# ---------------------------------------------------------------------------
# generator

def pick_id(r, sq, lo=0):
    n = len(sq.nodes)
    if n <= lo:
        return lo
    c = r.random()
    if c < 0.45:
        return r.randrange(max(lo, n - 6), n)
    return r.randrange(lo, n)


def sigma_args(r, sg, k=None):
    k = k or r.choice([1, 2, 3, 4])
    js = [r.randrange(sg.n) for _ in range(k)]
    return js, "%d %s" % (k, " ".join(sg.sigma_str(j) for j in js))


def gen_join(r, sq):
    k = r.choice([0, 1, 2, 2, 2, 3, 3, 3, 4, 5, 7])
    ids = [pick_id(r, sq) for _ in range(k)]
    if ids and r.random() < 0.25:
        ids.append(r.choice(ids))                     # duplicate
    if ids and r.random() < 0.25:                     # complement of an operand, if it exists
        x = r.choice(ids)
        comp = [i for i, n in enumerate(sq.nodes) if n == ("N", x)]
        if sq.nodes[x][0] == "N":
            comp.append(sq.nodes[x][1])
        if comp:
            ids.append(r.choice(comp))
    if r.random() < 0.12:
        ids.append(r.choice([0, 1]))
    r.shuffle(ids)
    return "i J %s %d %s" % (r.choice(["and", "or"]), len(ids), " ".join(map(str, ids)))


def gen_query(r, sq, sg, n=None):
    n = pick_id(r, sq) if n is None else n
    c = r.random()
    if c < 0.4:
        _, sa = sigma_args(r, sg)
        if r.random() < 0.35:
            surfs = sorted({x[1] for x in sq.nodes if x[0] == "S"} | ({r.randrange(sq.nsurf)} if r.random() < 0.5 else set()))
            return "p %d %d %s %s" % (n, len(surfs), " ".join(map(str, surfs)), sa) if surfs else "p %d - %s" % (n, sa)
        return "p %d - %s" % (n, sa)
    if c < 0.55:
        return "s %d" % n
    if c < 0.75:
        return "g %d" % n
    if c < 0.88:
        return "e %d %s" % (n, sigma_args(r, sg)[1])
    return "q %d %s" % (n, sigma_args(r, sg)[1])


def gen_random_sequence(ctx, model, r, idx):
    nsurf = r.choice([1, 2, 2, 3, 3, 3, 4, 4, 4, 5, 5, 6, 6, 8, 10, 12, 14])
    sq = Seq(nsurf, "random")
    model.step("reset")
    sg = Sigmas(nsurf, r)
    sq.sg = sg
    for s in r.sample(range(nsurf), r.randint(1, nsurf)):
        apply_op(model, sq, "i S %d" % s, ctx)
    nops = r.choice([6, 10, 14, 18, 24, 32])
    style = r.choice(["mixed", "mixed", "build-then-rewrite", "production"])
    for k in range(nops):
        if sq.ended:
            break
        c = r.random()
        late = k > nops * 0.55
        if style == "build-then-rewrite" and not late:
            c = c * 0.62                 # inserts only
        if style == "production" and late:
            c = 0.62 + c * 0.38
        if c < 0.17:
            op = "i N %d" % pick_id(r, sq)
        elif c < 0.47:
            op = gen_join(r, sq)
        elif c < 0.52:
            op = "i S %d" % r.randrange(nsurf)
        elif c < 0.54:
            op = r.choice(["i A %d" % pick_id(r, sq), "i T", "i F", "i A %d" % pick_id(r, sq)])
        elif c < 0.62:
            op = "v %d" % pick_id(r, sq)
        elif c < 0.71:
            surf_nodes = [i for i, n in enumerate(sq.nodes) if n[0] == "S"]
            if surf_nodes and r.random() < 0.6:
                key = r.choice(surf_nodes)
            else:
                key = pick_id(r, sq, 0 if r.random() < 0.05 else 2)
            op = "r %d %s" % (key, r.choice("TF"))
        elif c < 0.75:
            op = "m %d" % pick_id(r, sq, 2)
        elif c < 0.77:
            op = "u %d" % pick_id(r, sq, 0 if r.random() < 0.2 else 2)
        elif c < 0.80:
            op = "y %d" % pick_id(r, sq, 2)
        elif c < 0.83:
            i = pick_id(r, sq, 2)
            if r.random() < 0.5 or i <= 2:
                op = "x %d %s" % (i, r.choice("TF"))
            else:
                kind = r.random()
                if kind < 0.3:
                    nd = ("N", r.randrange(i))
                elif kind < 0.4:
                    nd = ("A", r.randrange(i))
                else:
                    nd = ("J", r.choice(["all", "any"]), [r.randrange(i) for _ in range(r.choice([1, 2, 2, 3]))])
                op = "x %d %s" % (i, node_spec(nd))
        elif c < 0.88:
            op = "d"
        else:
            op = gen_query(r, sq, sg)
        apply_op(model, sq, op, ctx)
    # production-like ending: simplify, De Morgan, then encode every volume
    if not sq.ended and r.random() < 0.7:
        if len(sq.nodes) > 2 and r.random() < 0.6:
            apply_op(model, sq, "m 2", ctx)
        if r.random() < 0.7:
            apply_op(model, sq, "d", ctx)
        targets = list(dict.fromkeys(sq.vols))[:4] or [len(sq.nodes) - 1]
        for v in targets:
            _, sa = sigma_args(r, sg, 3)
            for op in ("p %d - %s" % (v, sa), "s %d" % v, "g %d" % v, "e %d %s" % (v, sa), "q %d %s" % (v, sa)):
                apply_op(model, sq, op, ctx)
    return sq


def gen_deep_sequence(ctx, model, r, idx, width):
    """right-nested joins: postfix stack depth = nesting depth, around the limit of the bit-field stack"""
    depth = r.choice([2, 5, 17, width - 2, width - 1, width, width, width + 1, width + 2, width + 8])
    nsurf = depth
    sq = Seq(nsurf, "deep")
    model.step("reset")
    sg = Sigmas(nsurf, r)
    sq.sg = sg
    for s in range(nsurf):
        apply_op(model, sq, "i S %d" % s, ctx)
    # node id of surface s is s + 2
    cur = nsurf - 1 + 2
    opn = r.choice(["and", "or"])
    for s in range(nsurf - 2, -1, -1):
        if r.random() < 0.7:
            opn = "or" if opn == "and" else "and"
        extra = ""
        lead = s + 2
        if r.random() < 0.3:
            apply_op(model, sq, "i N %d" % lead, ctx)
            lead = len(sq.nodes) - 1
        apply_op(model, sq, "i J %s 2 %d %d" % (opn, cur, lead), ctx)
        cur = len(sq.nodes) - 1
        if r.random() < 0.1:
            apply_op(model, sq, "i N %d" % cur, ctx)
            cur = len(sq.nodes) - 1
    apply_op(model, sq, "v %d" % cur, ctx)
    _, sa = sigma_args(r, sg, 4)
    for op in ("p %d - %s" % (cur, sa), "g %d" % cur, "e %d %s" % (cur, sa), "d"):
        apply_op(model, sq, op, ctx)
    if sq.vols:
        v = sq.vols[0]
        for op in ("p %d - %s" % (v, sa), "s %d" % v, "q %d %s" % (v, sa)):
            apply_op(model, sq, op, ctx)
    return sq


def gen_corpus_sequence(ctx, model, line, force=False):
    nsurf = 1 + max([int(x) for x in re.findall(r"\bS (\d+)", line)] or [0])
    sq = Seq(nsurf, "corpus")
    import random
    sq.sg = Sigmas(nsurf, random.Random(nsurf))
    model.step("reset")
    for op in [o.strip() for o in line.split("|") if o.strip()]:
        apply_op(model, sq, op, ctx, force=force)
    return sq


# ---------------------------------------------------------------------------
# oracle on the implementation's outputs

def op_node(op):
    """node given as argument of an insert / exchange op"""
    t = op.split()
    t = t[1:] if t[0] == "i" else t[2:]
    k = t[0]
    if k in "TF":
        return (k,)
    if k in "NAS":
        return (k, int(t[1]))
    return ("J", "all" if t[1] == "and" else "any", [int(x) for x in t[3:3 + int(t[2])]])


SIG_R2 = "flagger-negated-alias-called-simple"


def oracle(sq, impl_lines):
    """check the property on what the implementation printed. Returns a list of
    (kind, message, op index)."""
    sg = sq.sg
    nodes, vols = [("T",), ("N", 0)], []
    T = tables(nodes, sg)
    allowed = sg.ALL                 # assignments consistent with the replaced constants so far
    probs = []
    pos = 0
    for k, op in enumerate(sq.ops):
        kind = op[0]
        n = NLINES[kind]
        lines = impl_lines[pos:pos + n]
        if pos < len(impl_lines) and impl_lines[pos].startswith("! throw"):
            # a reported contradiction: legitimate only if no allowed assignment is consistent
            if kind == "r":
                t = op.split()
                key, val = int(t[1]), t[2] == "T"
                cons = allowed & (T[key] if val else sg.ALL & ~T[key]) if key < len(T) else 0
                if cons and sg.full:
                    # contradiction reported although a consistent assignment exists: allowed
                    # (the state propagation is one-directional), only counted
                    probs.append(("note", "throw-with-consistent-assignment", k))
            break
        if len(lines) < n:
            probs.append(("output", "implementation output ends early at op %d (%s)" % (k, op), k))
            break
        pos += n
        try:
            if kind in MUTATING:
                new_nodes, new_vols = parse_tree_line(lines[1])
                try:
                    newT = tables(new_nodes, sg)
                except Bad as e:
                    # alias cycle / dangling id: the documented invariant is gone
                    probs.append(("topological-order", "tree cannot be evaluated after %r: %s" % (op, e), k))
                    break
                if not topo_sorted(new_nodes):
                    # since the repair of exchange (R1/R3, NOTES.md) no generated op can lose the order:
                    # user exchanges only offer operands/aliases below the node (C10_exchange_sound)
                    probs.append(("topological-order", "tree is not topologically sorted after %r" % op, k))
                if kind == "d":
                    # volumes keep their truth table (for every assignment); no negated join remains
                    if len(new_vols) != len(vols):
                        probs.append(("demorgan", "number of volumes changed", k))
                    else:
                        for a, b in zip(vols, new_vols):
                            if T[a] != newT[b]:
                                probs.append(("demorgan", "volume %d -> %d changed its boolean function" % (a, b), k))
                                break
                    for i, nd in enumerate(new_nodes):
                        if nd[0] == "N":
                            c = nd[1]
                            while new_nodes[c][0] == "A":
                                c = new_nodes[c][1]
                            if new_nodes[c][0] == "J":
                                probs.append(("demorgan", "negated join remains at node %d" % i, k))
                                break
                else:
                    if kind == "r":
                        t = op.split()
                        key, val = int(t[1]), t[2] == "T"
                        allowed &= T[key] if val else (sg.ALL & ~T[key])
                    elif kind == "x":
                        i = int(op.split()[1])
                        nd = op_node(op)
                        allowed &= sg.ALL & ~(T[i] ^ eval_node(nd, lambda c: T[c], sg))
                    if len(new_nodes) < len(nodes):
                        probs.append(("tree", "tree shrank", k))
                    for i in range(min(len(nodes), len(new_nodes))):
                        if (T[i] ^ newT[i]) & allowed:
                            probs.append(("value-changed", "node %d changed its value after %r" % (i, op), k))
                            break
                    if kind == "i":
                        rid = int(lines[0].split()[1])
                        want = eval_node(op_node(op), lambda c: T[c], sg)
                        if rid >= len(newT) or ((newT[rid] ^ want) & allowed):
                            probs.append(("insert", "inserted node %d does not evaluate like the given node" % rid, k))
                    if kind == "r":
                        # reported unknown surfaces must be surface nodes
                        for u in [int(x) for x in lines[0].split()[1:]]:
                            if new_nodes[u][0] != "S":
                                probs.append(("replace", "unknown-surface list contains non-surface %d" % u, k))
                nodes, vols, T = new_nodes, new_vols, newT
            elif kind == "p":
                m = re.fullmatch(r"p F ?(.*?) L (.*) D (\S+) E (\S+)", lines[0])
                faces = [int(x) for x in m.group(1).split()]
                toks = m.group(2).split()
                t = op.split()
                nid = int(t[1])
                mapping = None
                if t[2] != "-":
                    mapping = [int(x) for x in t[3:3 + int(t[2])]]
                surf_of_face = [(mapping[f] if mapping is not None else f) for f in faces]
                if faces != sorted(set(faces)):
                    probs.append(("postfix", "faces not sorted/unique", k))
                vals = [sg.col(s) for s in surf_of_face]
                got = eval_postfix(toks, vals, sg.ALL)
                if got != T[nid]:
                    probs.append(("postfix", "postfix logic of node %d is not equivalent to the node" % nid, k))
                # true maximum stack height
                h = mx = 0
                for x in toks:
                    if x in "&|":
                        h -= 1
                    elif x != "~":
                        h += 1
                    mx = max(mx, h)
                if m.group(3) != str(max(mx, 1)):
                    probs.append(("max-depth", "calc_max_depth says %s, true maximum stack height %d" % (m.group(3), mx), k))
                if m.group(4) != "-":
                    sig_strs = t[-int(_nsig(t)):]
                    for b, ss in zip(m.group(4), sig_strs):
                        want = _eval_at(nodes, nid, ss)
                        if (b == "1") != want:
                            probs.append(("logic-evaluator", "LogicEvaluator result differs from the node's value at %s" % ss, k))
                            break
            elif kind == "s":
                nid = int(op.split()[1])
                if eval_infix_string(lines[0][2:], sg) != T[nid]:
                    probs.append(("infix-string", "infix string of node %d is not equivalent to the node" % nid, k))
            elif kind == "e":
                t = op.split()
                nid = int(t[1])
                for b, ss in zip(lines[0][2:], t[3:]):
                    if (b == "1") != _eval_at(nodes, nid, ss):
                        probs.append(("sense-evaluator", "SenseEvaluator differs from the node's value at %s" % ss, k))
                        break
            elif kind == "g":
                nid = int(op.split()[1])
                if lines[0] == "g 0":
                    for f in sorted(reach_surfaces(nodes, nid)):
                        if f >= sg.nsurf:
                            continue
                        Tf = tables(nodes, sg.flipped(f))
                        if T[nid] & Tf[nid]:
                            # not a conjunction of literals. Known finding R2 only in the narrow case
                            # that a Negated node pointing at an Aliased node is involved
                            kind = ("known:" + SIG_R2) if _negated_alias(nodes, nid) else "simple-flag"
                            probs.append((kind, "node %d is flagged free of internal surfaces but stays true when face %d flips" % (nid, f), k))
                            break
        except (Bad, AttributeError, ValueError, IndexError, AssertionError, KeyError, TypeError) as e:
            # the implementation printed something that cannot be interpreted for this op
            probs.append(("malformed", "%s: %s after %r" % (type(e).__name__, e, op), k))
            break
    return probs


def _op_index_of_line(sq, nlines):
    """index of the op during which the output stopped after nlines complete lines"""
    n = 0
    for k, op in enumerate(sq.ops):
        n += NLINES[op[0]]
        if n > nlines:
            return k
    return len(sq.ops) - 1


def _nsig(t):
    """number of sigma strings at the end of a p/e/q op"""
    if t[0] == "p":
        i = 2
        if t[i] == "-":
            i += 1
        else:
            i += 1 + int(t[i])
        return t[i]
    return t[2]


def _eval_at(nodes, nid, ss):
    memo = {}

    def ev(i):
        if i in memo:
            return memo[i]
        n = nodes[i]
        k = n[0]
        if k == "T":
            v = True
        elif k == "F":
            v = False
        elif k == "A":
            v = ev(n[1])
        elif k == "N":
            v = not ev(n[1])
        elif k == "S":
            v = n[1] < len(ss) and ss[n[1]] == "1"
        elif n[1] == "all":
            v = all(ev(c) for c in n[2])
        else:
            v = any(ev(c) for c in n[2])
        memo[i] = v
        return v
    return ev(nid)


def _negated_alias(nodes, nid):
    """a Negated node whose operand is an Aliased node is reachable (statement of
    flag_simple_sound excludes such not-yet-simplified trees; see NOTES.md)"""
    seen = set()
    stack = [nid]
    while stack:
        j = stack.pop()
        if j in seen:
            continue
        seen.add(j)
        n = nodes[j]
        if n[0] == "N" and nodes[n[1]][0] == "A":
            return True
        stack += children(n)
    return False


# ---------------------------------------------------------------------------
# token-vector cases (LogicEvaluator / LogicStack / InfixEvaluator / calc_max_depth)

def gen_postfix_tokens(r, nfaces, depth_target):
    """random valid postfix expression; returns token list"""
    def expr(d):
        c = r.random()
        if d <= 0 or c < 0.3:
            return [r.choice(["*"] + [str(r.randrange(nfaces))] * 4)]
        if c < 0.45:
            return expr(d - 1) + ["~"]
        k = r.choice([2, 2, 3])
        out = expr(d - 1)
        for _ in range(k - 1):
            out += expr(d - 1) + [r.choice("&|")]
        return out
    toks = expr(r.choice([1, 2, 3, 4]))
    # right-nesting to reach a target depth: a b c ... op op op
    if depth_target > 1:
        head = [str(r.randrange(nfaces)) if r.random() < 0.8 else "*" for _ in range(depth_target - 1)]
        inter = []
        for h in head:
            inter.append(h)
            if r.random() < 0.2:
                inter.append("~")
        toks = inter + toks + [r.choice("&|") for _ in range(depth_target - 1)]
    return toks


def gen_infix_tokens(r, nfaces, uniform=True):
    def atom():
        c = r.random()
        if c < 0.1:
            return ["*"]
        f = str(r.randrange(nfaces))
        return ["~", f] if c < 0.45 else [f]

    def group(d):
        k = r.choice([2, 2, 3, 4])
        op = r.choice("&|")
        out = []
        for j in range(k):
            if j:
                out.append(op if uniform else r.choice("&|"))
            out += group(d - 1) if (d > 0 and r.random() < 0.4) else atom()
        return ["("] + out + [")"]
    c = r.random()
    if c < 0.1:
        return atom()
    g = group(r.choice([0, 1, 2, 3]))
    if c < 0.3:
        g = g[1:-1]            # top level without parentheses
    return g


def py_infix_uniform(toks, vals):
    """reference value of a well-formed infix expression whose groups use one operator"""
    pos = 0

    def atom():
        nonlocal pos
        t = toks[pos]
        if t == "(":
            pos += 1
            v = seq()
            assert toks[pos] == ")"
            pos += 1
            return v
        if t == "*":
            pos += 1
            return True
        if t == "~":
            pos += 2
            return not vals[int(toks[pos - 1])]
        pos += 1
        return vals[int(t)]

    def seq():
        nonlocal pos
        v = atom()
        while pos < len(toks) and toks[pos] in "&|":
            o = toks[pos]
            pos += 1
            w = atom()
            v = (v and w) if o == "&" else (v or w)
        return v
    return seq()


# ---------------------------------------------------------------------------

WATCHDOG_S = 8        # per sequence / token case, inside the harness (alarm)
MAX_ABNORMAL = 3      # stop running the implementation after this many hangs + crashes


def run_harness_seqs(ctx, exe, seqs, total_budget):
    """run all sequences through the C++ harness; returns per-sequence line lists,
    ("crash"|"hang", rc, partial output) where the process died / the watchdog fired on
    that sequence, None where the sequence was not run (time budget used up, or too many
    abnormal ends already)."""
    import time
    results = [None] * len(seqs)
    start = 0
    abnormal = 0
    deadline = time.time() + total_budget
    while start < len(seqs):
        left = deadline - time.time()
        if left <= 1 or abnormal >= MAX_ABNORMAL:
            ctx.count("sequences-not-run-on-implementation", len(seqs) - start)
            ctx.notes.append("implementation harness stopped early (%s): %d sequences not run"
                             % ("time budget" if left <= 1 else "%d hangs/crashes" % abnormal, len(seqs) - start))
            break
        inp = "".join(s.text() + "\n" for s in seqs[start:])
        rc, out = ctx.run_harness(exe, ["seq", str(WATCHDOG_S)], input=inp, timeout=left + WATCHDOG_S + 5)
        cur = []
        i = start
        for l in out.splitlines():
            if l == ".":
                results[i] = cur
                cur = []
                i += 1
                if i >= len(seqs):
                    break
            else:
                cur.append(l)
        if i >= len(seqs):
            break
        if rc == 124 and not (cur and cur[-1] == "! hang"):
            # outer time limit: sequence i was merely in progress, not necessarily at fault
            continue_from = i
            deadline = time.time()
            start = continue_from
            continue
        # sequence i ended the process: watchdog (marker line) or crash
        hung = bool(cur) and cur[-1] == "! hang"
        results[i] = ("hang" if hung else "crash", rc, [l for l in cur if l and l != "! hang"])
        abnormal += 1
        start = i + 1
    return results


def compile_parallel(ctx, srcs, exe, libs):
    """like ctx.compile_harness, but one g++ -c per translation unit, in parallel"""
    import time
    from concurrent.futures import ThreadPoolExecutor
    fl, ld = ctx.cxx_flags(libs)
    objdir = os.path.join(ctx.work, "obj")
    os.makedirs(objdir, exist_ok=True)
    t0 = time.time()

    def one(src):
        obj = os.path.join(objdir, os.path.basename(src) + ".o")
        rc, out = vlib.sh(["g++"] + fl + ["-c", src, "-o", obj], timeout=900)
        return rc, out, obj
    with ThreadPoolExecutor(max_workers=len(srcs)) as ex:
        res = list(ex.map(one, srcs))
    for rc, out, obj in res:
        if rc != 0:
            raise vlib.BuildError("harness compile failed: " + obj, out[-4000:])
    out_exe = os.path.join(ctx.work, exe)
    rc, out = vlib.sh(["g++"] + [o for _, _, o in res] + ["-o", out_exe, "-fopenmp"] + ld, timeout=900)
    ctx.log("compiled %s (%d translation units): rc=%d in %.1fs" % (exe, len(srcs), rc, time.time() - t0))
    if rc != 0:
        raise vlib.BuildError("harness link failed: " + exe, out[-4000:])
    return out_exe


def run(ctx):
    quick = ctx.tier == "quick"
    nseq = 2200 if quick else 25000
    ndeep = 24 if quick else 200
    ntok = 3000 if quick else 40000
    r = ctx.rng
    ctx.trusted += [
        "hand-written Gallina model coq/C10/{Csg,CsgFixed,Logic,DeMorgan,Sense}.v tied to liborange by the exact op-sequence differential (props/C10/run.py, harness/csg.cc, driver.ml)",
        "Coq extraction to OCaml (ExtrOcamlBasic) and the parse/print glue props/C10/driver.ml",
        "std::unordered_map / std::hash (modelled as an association list with first-match lookup), std::sort / std::unique / find_sorted (modelled as sorted-unique insertion and linear search)",
        "independent Python evaluator of printed trees (property oracle)",
    ]
    ctx.assumptions += [
        "node ids, surface ids < 2^32-8 (no collision with the invalid id / logic operator tokens)",
        "InternalSurfaceFlagger's per-node cache is transparent (pure visited function, const tree): not modelled",
        "an explicit infix LOGIC builder does not exist in the repository: infix_eval_correct is about the model-side builder build_infix + the real InfixEvaluator semantics",
    ]
    proofs_ok = ctx.coq_prove("Properties_C10.v")
    ok, log = ctx.coq_build(["C10/Run.vo", "C10/RunFixed.vo"])
    if not ok:
        ctx.violation("model-broken", "the executable model no longer compiles", {"log_tail": log[-2000:]}, no_input=True)
        return
    odir = os.path.join(ctx.work, "ocaml")
    os.makedirs(odir, exist_ok=True)
    shutil.copy(os.path.join(HERE, "Extract.v"), os.path.join(odir, "Extract.v"))
    import hashlib
    h = hashlib.sha1()
    for fn in [os.path.join(HERE, "Extract.v"), os.path.join(HERE, "driver.ml")] + sorted(
            glob.glob(os.path.join(vlib.COQDIR, "C10", "*.v"))):
        h.update(open(fn, "rb").read())
    stamp = os.path.join(odir, "build.stamp")
    model_exe = os.path.join(odir, "c10model")
    if not (os.path.exists(model_exe) and os.path.exists(stamp) and open(stamp).read() == h.hexdigest()):
        model_exe = ctx.ocaml_extract(os.path.join(odir, "Extract.v"), os.path.join(HERE, "driver.ml"), "c10model", "c10model")
        open(stamp, "w").write(h.hexdigest())
    ctx.log("model executable ready")
    ctx.build_libs(["orange"])
    # the anchored translation units are compiled into the harness from the source tree under
    # test (they override the copies in liborange, which is still linked for surfaces etc.), so
    # the tie is to the sources as they are at run time, .cc files included
    srcdir = os.path.join(vlib.REPO, "src", "orange", "orangeinp")
    anchored = [os.path.join(srcdir, f) for f in (
        "CsgTree.cc", "CsgTypes.cc", "CsgTreeUtils.cc", "detail/NodeSimplifier.cc",
        "detail/DeMorganSimplifier.cc", "detail/PostfixLogicBuilder.cc",
        "detail/InternalSurfaceFlagger.cc", "detail/SenseEvaluator.cc")]
    exe = compile_parallel(ctx, [os.path.join(HERE, "harness", "csg.cc")] + anchored, "csg",
                           ["orange", "geocel", "corecel"])

    # ---- generate sequences with the model in the loop --------------------
    rc, wout = ctx.run_harness(exe, ["width"])
    width = int(wout.strip())
    ctx.count("logic-stack-width-%d" % width)
    # The model is the code as it is since the repair of findings R1/R3 (/repo d70f3c2: visitor
    # AreOperandsBelow in CsgTree.cc; model coq/C10/CsgFixed.v). If the repair is missing from the source
    # under test, the @R1/@R3 corpus lines lose the topological order on the real code again and are
    # reported as VIOLATIONs (oracle `topological-order` + correspondence), not as a known finding.
    try:
        repaired = "AreOperandsBelow" in open(os.path.join(vlib.REPO, "src", "orange", "orangeinp", "CsgTree.cc")).read()
    except OSError:
        repaired = False
    if not repaired:
        ctx.count("exchange-repair-MISSING-from-source")
        ctx.notes.append("CsgTree.cc does not contain the repair of R1/R3 (AreOperandsBelow): expect the @R1/@R3 "
                         "witnesses to be reported as violations")
    model = Model(model_exe, width)
    seqs = []
    for f in sorted(glob.glob(os.path.join(HERE, "corpus", "*.txt"))):
        for line in open(f):
            line = line.split("#")[0].strip()
            if line:
                tag = "corpus"
                if line.startswith("@"):
                    wid, line = line.split(" ", 1)
                    tag = "witness:" + wid[1:]
                sq = gen_corpus_sequence(ctx, model, line, force=tag.startswith("witness:"))
                sq.tag = tag
                seqs.append(sq)
    for i in range(ndeep):
        seqs.append(gen_deep_sequence(ctx, model, r, i, width))
    for i in range(nseq):
        seqs.append(gen_random_sequence(ctx, model, r, i))
    model.close()
    ctx.log("generated %d sequences, %d ops" % (len(seqs), sum(len(s.ops) for s in seqs)))

    # ---- the implementation ------------------------------------------------
    results = run_harness_seqs(ctx, exe, seqs, 90 if quick else 900)
    ndis = 0
    nviol = 0
    for sq, impl in zip(seqs, results):
        replay = {"sequence": sq.text(), "surfaces": sq.nsurf, "generator": sq.tag,
                  "how": "echo '<sequence>' | CELER_DISABLE_PARALLEL=1 /verif/_work/C10/csg seq   (model: /verif/_work/C10/ocaml/c10model seq)"}
        for k, op in enumerate(sq.ops):
            ctx.count("op:" + op.split()[0])
            ctx.case((sq.text(), k), nontrivial=True)
        ctx.count("gen:" + sq.tag)
        if impl is None:
            continue          # not run on the implementation (see notes)
        if isinstance(impl, tuple) and impl[0] == "hang":
            ctx.violation("hang", "the real code does not terminate (watchdog %d s) on a sequence the model finishes" % WATCHDOG_S,
                          dict(replay, output_before_hang=impl[2][-4:],
                               failing_op_index=_op_index_of_line(sq, len(impl[2]))))
            nviol += 1
            continue
        if isinstance(impl, tuple):
            forced = getattr(sq, "model_stopped", None) is not None
            ctx.violation("crash", "the implementation crashed (rc=%s) on a sequence the model accepts" % impl[1]
                          if not forced else "the implementation crashed (rc=%s) after the topological order was lost" % impl[1],
                          dict(replay, partial_output=impl[2][-5:]),
                          signature=None)
            if not forced:
                nviol += 1
            continue
        stopped = getattr(sq, "model_stopped", None)
        if stopped is not None:
            # compare only up to the op on which the model met an assertion site
            nl = sum(NLINES[o[0]] for o in sq.ops[:stopped])
            expected = [l for ls in sq.exp[:stopped] for l in ls if not l.startswith("q ") and not l.startswith("c ")]
            impl_cmp = impl[:nl]
        else:
            expected = [l for ls in sq.exp for l in ls if not l.startswith("q ") and not l.startswith("c ")]
            impl_cmp = impl
        if sq.tag.startswith("witness:"):
            wid = sq.tag.split(":")[1]
            try:
                if wid in ("R1", "R3"):
                    # fixed findings: the former witnesses must keep the order now (a loss is reported
                    # by the oracle below as a `topological-order` VIOLATION with this sequence)
                    lost = any(not topo_sorted(parse_tree_line(l)[0]) for l in impl if l.startswith("t "))
                    ctx.count("witness-%s-%s" % (wid, "REPRODUCED-AGAIN:repair-missing-or-broken" if lost else "gone-since-repair"))
                    rep_ok = True
                else:
                    rep_ok = "g 0" in impl and any(l.startswith("s !all(") for l in impl)
                    ctx.count("witness-%s-%s" % (wid, "reproduced-on-real-code" if rep_ok else "NOT-reproduced"))
            except Exception:
                rep_ok = False
            if not rep_ok:
                ctx.notes.append("refutation witness %s no longer reproduces on the code: the _refuted theorem and NOTES.md need an update" % wid)
        probs = oracle(sq, impl)
        hard = [p for p in probs if p[0] != "note" and not p[0].startswith("known:")]
        for p in probs:
            if p[0] == "note":
                ctx.count("note:" + p[1])
            elif p[0].startswith("known:"):
                sig = p[0][6:]
                ctx.count("known-finding-hit:" + sig)
                ctx.violation("finding", p[1], dict(replay, failing_op_index=p[2],
                                                    failing_op=sq.ops[p[2]] if p[2] < len(sq.ops) else None),
                              signature=sig)
        if hard and nviol < 6:
            kind, msg, k = hard[0]
            ctx.violation(kind, msg, dict(replay, failing_op_index=k, failing_op=sq.ops[k] if k < len(sq.ops) else None,
                                          all_problems=[p[1] for p in hard[:5]]))
            nviol += 1
        if impl_cmp != expected:
            ndis += 1
            if not hard and ndis <= 4:
                d = next((j for j, (a, b) in enumerate(zip(impl_cmp, expected)) if a != b), min(len(impl_cmp), len(expected)))
                ctx.violation("correspondence", "model and implementation print different records",
                              dict(replay, first_difference=d,
                                   impl=impl_cmp[d] if d < len(impl_cmp) else None,
                                   model=expected[d] if d < len(expected) else None,
                                   theorem="Properties_C10.v is about a model that no longer matches the code"),
                              no_input=True)
        if sq.topo_fail:
            ctx.count("model-topological-check-failed")
        ctx.sample({"sequence": sq.text()[:400], "impl_tail": impl[-3:], "model_tail": expected[-3:]})
    if ndis:
        ctx.log("%d sequences with model/implementation disagreement" % ndis)

    # ---- infix logic built by the model, evaluated by the real InfixEvaluator
    tok_cases = []
    for sq in seqs:
        for op, ls in zip(sq.ops, sq.exp):
            if op[0] == "q" and ls and ls[0].startswith("q L "):
                m = re.fullmatch(r"q L (.*) E (\S+)", ls[0])
                t = op.split()
                nid = int(t[1])
                for b, ss in zip(m.group(2), t[3:]):
                    tok_cases.append(("infix", ss, m.group(1).split(), b, "tree"))
    ctx.count("infix-from-tree", len(tok_cases))
    for i in range(ntok):
        nf = r.choice([1, 2, 3, 5, 8])
        vals = "".join(r.choice("01") for _ in range(nf))
        c = i % 4
        if c == 0:
            tok_cases.append(("post", vals, gen_postfix_tokens(r, nf, r.choice([1, 1, 2, 3, 8, width - 2, width - 1, width, width + 1, width + 3])), None, "random"))
        elif c == 1:
            tok_cases.append(("infix", vals, gen_infix_tokens(r, nf, True), None, "uniform"))
        elif c == 2:
            tok_cases.append(("infix", vals, gen_infix_tokens(r, nf, False), None, "mixed"))
        else:
            toks = [r.choice(["*", "~", "&", "|"] + [str(r.randrange(nf))] * 3) for _ in range(r.randint(1, 12))]
            if r.random() < 0.5:
                toks = gen_postfix_tokens(r, nf, r.choice([1, 2, 5, width + 1]))
            tok_cases.append(("depth", "-", toks, None, "random"))
    inp = "".join("%s %s %s\n" % (k, v, " ".join(t)) for k, v, t, _, _ in tok_cases)
    rc, mout = vlib.sh([model_exe, "tok", str(width)], input=inp, timeout=600)
    mlines = mout.splitlines()
    if rc != 0 or len(mlines) != len(tok_cases):
        raise RuntimeError("model token run failed: rc=%d, %d lines for %d cases" % (rc, len(mlines), len(tok_cases)))
    # the implementation only sees cases on which the model meets no assertion site
    keep = [i for i, l in enumerate(mlines) if not l.startswith("!")]
    inp2 = "".join("%s %s %s\n" % (tok_cases[i][0], tok_cases[i][1], " ".join(tok_cases[i][2])) for i in keep)
    rc, cout = ctx.run_harness(exe, ["tok", str(WATCHDOG_S)], input=inp2, timeout=120 if quick else 600)
    clines = [l for l in cout.splitlines() if l != ""]
    hung = bool(clines) and clines[-1] == "! hang"
    if hung:
        clines = clines[:-1]
    if rc != 0 or len(clines) != len(keep):
        ncomplete = min(len(clines), len(keep) - 1)
        ctx.violation("hang" if (hung or rc == 124) else "crash",
                      "token-vector harness %s rc=%d after %d of %d cases"
                      % ("did not terminate on a case" if (hung or rc == 124) else "failed", rc, len(clines), len(keep)),
                      {"case": inp2.splitlines()[ncomplete], "how": "echo '<case>' | /verif/_work/C10/csg tok"})
    else:
        nbad = 0
        for i, cl in zip(keep, clines):
            kind, vals, toks, want, src = tok_cases[i]
            ctx.case(("tok", kind, vals, toks), nontrivial=True)
            ctx.count("tok:%s:%s" % (kind, src))
            ref = None
            if kind == "post":
                ref = "1" if eval_postfix(toks, [1 if c == "1" else 0 for c in vals], 1) else "0"
            elif kind == "infix" and src in ("uniform", "tree"):
                ref = "1" if py_infix_uniform(toks, [c == "1" for c in vals]) else "0"
            elif kind == "depth":
                h = mx = 0
                for x in toks:
                    if x in "&|":
                        mx = max(mx, h)
                        h -= 1
                    elif x != "~":
                        h += 1
                ref = str(max(mx, 1)) if h == 1 else "invalid"
            rep = {"kind": kind, "values": vals, "tokens": " ".join(toks), "impl": cl, "model": mlines[i], "reference": ref,
                   "how": "echo '%s %s <tokens>' | /verif/_work/C10/csg tok" % (kind, vals)}
            if ref is not None and cl != ref and nbad < 4:
                nbad += 1
                ctx.violation("evaluator", "%s evaluation of a token vector differs from its reference value" % kind, rep)
            elif want is not None and cl != want and nbad < 4:
                nbad += 1
                ctx.violation("evaluator", "InfixEvaluator differs from the model on a tree-built expression", rep)
            elif cl != mlines[i] and nbad < 4:
                nbad += 1
                ctx.violation("correspondence", "model and implementation differ on a %s token vector" % kind, rep, no_input=True)
        for i, l in enumerate(mlines):
            if l.startswith("!"):
                ctx.count("tok-model-precondition-skip:" + tok_cases[i][0])

    if not proofs_ok and not ctx.violations:
        ctx.violation("proof-broken", "Properties_C10.v no longer checks", ctx.broken_proof, no_input=True)
    elif not proofs_ok:
        ctx.notes.append("Properties_C10.v no longer checks: %s" % (ctx.broken_proof.get("errors"),))
    ctx.coverage["rule"] = ("case = one op of a generated op sequence (tree construction / rewriting / encoding / evaluation) "
                            "or one token vector; sequences are generated with the model in the loop from one PRNG seeded by "
                            "VERIF_SEED; every op's printed record is compared exactly and checked by the truth-table oracle "
                            "(all 2^n assignments for n<=12 surfaces, else 4096 random)")
    ctx.coverage["traces_validated_against_impl"] = len(seqs)
