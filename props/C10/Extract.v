(** Extraction of the C10 executable model (ExtrOcamlBasic only). *)
From Coq Require Import Extraction ExtrOcamlBasic.
From Celer Require Import C10.Csg C10.Logic C10.DeMorgan C10.Run C10.RunFixed.
Extraction Language OCaml.
Set Extraction Output Directory ".".
Extraction "c10model.ml" empty_tree run_op run_seq run_postfix_tokens run_infix_tokens run_max_depth run_op_fx run_seq_fx.
