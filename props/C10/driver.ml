(* C10 model driver: parses op sequences / token cases from stdin, runs the
   extracted Coq model (C10model), prints one record per op.
   This file is glue only: parsing and printing. *)
open C10model

let rec nat_of_int n = if n <= 0 then O else S (nat_of_int (n - 1))
let rec int_of_nat = function O -> 0 | S n -> 1 + int_of_nat n
let rec int_of_pos = function XH -> 1 | XO p -> 2 * int_of_pos p | XI p -> 2 * int_of_pos p + 1
let int_of_z = function Z0 -> 0 | Zpos p -> int_of_pos p | Zneg p -> - (int_of_pos p)

let bits_of_string s = List.init (String.length s) (fun i -> s.[i] = '1')
let string_of_bits l = if l = [] then "-" else String.concat "" (List.map (fun b -> if b then "1" else "0") l)

(* ---- parsing ---- *)
let toks_of_line s = List.filter (fun x -> x <> "") (String.split_on_char ' ' s)

let rec take n l = if n = 0 then ([], l) else match l with
  | x :: r -> let (a, b) = take (n - 1) r in (x :: a, b)
  | [] -> failwith "short input"

let parse_node = function
  | "T" :: r -> (NTrue, r)
  | "F" :: r -> (NFalse, r)
  | "A" :: n :: r -> (NAliased (nat_of_int (int_of_string n)), r)
  | "N" :: n :: r -> (NNegated (nat_of_int (int_of_string n)), r)
  | "S" :: n :: r -> (NSurface (nat_of_int (int_of_string n)), r)
  | "J" :: o :: k :: r ->
      let (ids, r') = take (int_of_string k) r in
      (NJoined ((if o = "and" then OpAnd else OpOr), List.map (fun x -> nat_of_int (int_of_string x)) ids), r')
  | _ -> failwith "bad node spec"

let parse_sigmas r = match r with
  | k :: r -> let (s, r') = take (int_of_string k) r in (List.map bits_of_string s, r')
  | [] -> failwith "bad sigmas"

let nat s = nat_of_int (int_of_string s)

let parse_op ts = match ts with
  | "i" :: r -> let (n, _) = parse_node r in OInsert n
  | ["v"; n] -> OVolume (nat n)
  | "x" :: i :: r -> let (n, _) = parse_node r in OExchange (nat i, n)
  | ["y"; i] -> OSimplifyOne (nat i)
  | ["r"; k; v] -> OReplace (nat k, v = "T")
  | ["m"; s] -> OSimplify (nat s)
  | ["u"; s] -> OSimplifyUp (nat s)
  | ["d"] -> ODeMorgan
  | "p" :: n :: r ->
      let (mapping, r) = (match r with
        | "-" :: r -> (None, r)
        | k :: r -> let (m, r') = take (int_of_string k) r in (Some (List.map nat m), r')
        | [] -> failwith "bad mapping") in
      let (sg, _) = parse_sigmas r in OPostfix (nat n, mapping, sg)
  | ["s"; n] -> OInfixString (nat n)
  | ["g"; n] -> OFlag (nat n)
  | "e" :: n :: r -> let (sg, _) = parse_sigmas r in OEval (nat n, sg)
  | "q" :: n :: r -> let (sg, _) = parse_sigmas r in OInfix (nat n, sg)
  | _ -> failwith ("bad op: " ^ String.concat " " ts)

let split_ops s =
  List.filter (fun l -> l <> []) (List.map toks_of_line (String.split_on_char '|' s))

(* ---- printing ---- *)
let ids_str l = String.concat "," (List.map (fun n -> string_of_int (int_of_nat n)) l)

let node_str = function
  | NTrue -> "true"
  | NFalse -> "false"
  | NAliased a -> Printf.sprintf "->{%d}" (int_of_nat a)
  | NNegated a -> Printf.sprintf "not{%d}" (int_of_nat a)
  | NSurface s -> Printf.sprintf "surface %d" (int_of_nat s)
  | NJoined (o, l) -> Printf.sprintf "%s{%s}" (match o with OpAnd -> "all" | OpOr -> "any") (ids_str l)

let tree_str t =
  let b = Buffer.create 256 in
  Buffer.add_char b '{';
  List.iteri (fun i n -> Buffer.add_string b (Printf.sprintf "%d: %s, " i (node_str n))) t.nodes;
  Buffer.add_char b '}';
  Buffer.add_string b (" V " ^ ids_str t.volumes);
  Buffer.contents b

let tok_str = function
  | TFace f -> string_of_int (int_of_nat f)
  | TOpen -> "(" | TClose -> ")" | TTrue -> "*" | TOr -> "|" | TAnd -> "&" | TNot -> "~"
let toks_str l = String.concat " " (List.map tok_str l)

let stok_str = function
  | SAll -> "all(" | SAny -> "any(" | SSep -> ", " | SClose -> ")" | SBang -> "!"
  | ST -> "T" | SF -> "F"
  | SPlus s -> "+" ^ string_of_int (int_of_nat s)
  | SMinus s -> "-" ^ string_of_int (int_of_nat s)

let nats_str l = String.concat " " (List.map (fun n -> string_of_int (int_of_nat n)) l)

let print_out = function
  | PIns (i, b) -> Printf.printf "i %d %d\n" (int_of_nat i) (if b then 1 else 0)
  | PVol -> print_string "v\n"
  | PNode n -> Printf.printf "n %s\n" (node_str n)
  | POptNode None -> print_string "o -\n"
  | POptNode (Some n) -> Printf.printf "o %s\n" (node_str n)
  | PNats l -> Printf.printf "l %s\n" (nats_str l)
  | PUnit -> print_string "u\n"
  | POptNat None -> print_string "k -\n"
  | POptNat (Some n) -> Printf.printf "k %d\n" (int_of_nat n)
  | PPostfix (faces, lgc, d, ev) ->
      Printf.printf "p F %s L %s D %s E %s\n" (nats_str faces) (toks_str lgc)
        (match d with None -> "invalid" | Some z -> string_of_int (int_of_z z)) (string_of_bits ev)
  | PInfixStr l -> Printf.printf "s %s\n" (String.concat "" (List.map stok_str l))
  | PFlag b -> Printf.printf "g %d\n" (if b then 1 else 0)
  | PEvals l -> Printf.printf "e %s\n" (string_of_bits l)
  | PInfix (l, ev) -> Printf.printf "q L %s E %s\n" (toks_str l) (string_of_bits ev)
  | PTree t -> Printf.printf "t %s\n" (tree_str t)
  | PErr k -> Printf.printf "! %s\n" (match int_of_nat k with 1 -> "throw" | 2 -> "assert" | _ -> "fuel")

let parse_tok = function
  | "(" -> TOpen | ")" -> TClose | "*" -> TTrue | "|" -> TOr | "&" -> TAnd | "~" -> TNot
  | s -> TFace (nat s)

let res_str f = function
  | Ok a -> f a | Throw -> "! throw" | Assert -> "! assert" | Fuel -> "! fuel"

let cur = ref empty_tree

let () =
  let mode = Sys.argv.(1) in
  let width = nat_of_int (if Array.length Sys.argv > 2 then int_of_string Sys.argv.(2) else 64) in
  (* the model of the code as it is: exchange as repaired in /repo d70f3c2 (coq/C10/CsgFixed.v).
     Third argument "before-repair": the model of the code before the repair (coq/C10/Csg.v,
     faithful variant + the variant with the extra topological check), for replaying the
     *_before_repair_refuted witnesses by hand. *)
  let fixed = not (Array.length Sys.argv > 3 && Sys.argv.(3) = "before-repair") in
  (try
    while true do
      let line = input_line stdin in
      if mode = "step" then begin
        (* interactive: "reset" or one op per line; the tree persists *)
        if line = "reset" then (cur := empty_tree; print_string ".\n"; flush stdout)
        else begin
          let o = parse_op (toks_of_line line) in
          (match (if fixed then run_op_fx width !cur o else run_op width false !cur o) with
           | Ok (t', outs) ->
               List.iter print_out outs;
               if not fixed then
               (match run_op width true !cur o with
                | Ok (t2, outs2) when t2 = t' && outs2 = outs -> ()
                | _ -> print_string "c topo-check-failed\n");
               cur := t'
           | Throw -> print_string "! throw\n"
           | Assert -> print_string "! assert\n"
           | Fuel -> print_string "! fuel\n");
          print_string ".\n"; flush stdout
        end
      end else if mode = "seq" then begin
        let ops = List.map parse_op (split_ops line) in
        let outs = if fixed then run_seq_fx width ops else run_seq width false ops in
        List.iter print_out outs;
        (* same sequence with the extra topological check inside exchange *)
        let outs_chk = if fixed then outs else run_seq width true ops in
        if outs_chk <> outs then print_string "c topo-check-failed\n";
        print_string ".\n"
      end else begin
        (* token cases: <kind> <values bits|-> <tokens...> *)
        match toks_of_line line with
        | kind :: vals :: ts ->
            let l = List.map parse_tok ts in
            let v = if vals = "-" then [] else bits_of_string vals in
            let b2s b = if b then "1" else "0" in
            print_endline (match kind with
              | "post" -> res_str b2s (run_postfix_tokens width l v)
              | "infix" -> res_str b2s (run_infix_tokens l v)
              | "depth" -> res_str (function None -> "invalid" | Some z -> string_of_int (int_of_z z)) (run_max_depth l)
              | _ -> failwith "bad kind")
        | _ -> ()
      end
    done
  with End_of_file -> ())
