// C10 correspondence harness: drives the real CsgTree / CsgTreeUtils /
// PostfixLogicBuilder / InternalSurfaceFlagger / SenseEvaluator (liborange)
// and the header-only LogicEvaluator / LogicStack / InfixEvaluator with the
// same op sequences as the Coq model (coq/C10/Run.v, props/C10/driver.ml).
//
// usage: csg seq [budget_s] < sequences   (one sequence per line, ops separated by '|')
//        csg tok [budget_s] < token cases (<kind> <values bits|-> <tokens...>)
//        csg width
// budget_s: watchdog per sequence / case (default 8 s): prints "! hang" and exits with status 3.
// Output format: see props/C10/driver.ml (identical, line for line).
#include <csignal>
#include <cstdio>
#include <cstdlib>
#include <unistd.h>
#include <iostream>
#include <sstream>
#include <string>
#include <vector>

#include "corecel/cont/Span.hh"
#include "orange/OrangeTypes.hh"
#include "orange/orangeinp/CsgTree.hh"
#include "orange/orangeinp/CsgTreeUtils.hh"
#include "orange/orangeinp/CsgTypes.hh"
#include "orange/orangeinp/detail/InternalSurfaceFlagger.hh"
#include "orange/orangeinp/detail/PostfixLogicBuilder.hh"
#include "orange/orangeinp/detail/SenseEvaluator.hh"
#include "orange/surf/VariantSurface.hh"
#include "orange/univ/detail/InfixEvaluator.hh"
#include "orange/univ/detail/LogicEvaluator.hh"

// calc_max_depth lives in an anonymous namespace of UnitInserter.cc: compile
// that translation unit into the harness (as it is at run time) to reach it.
#include "orange/detail/UnitInserter.cc"

using namespace celeritas;
using namespace celeritas::orangeinp;
using celeritas::orangeinp::detail::InternalSurfaceFlagger;
using celeritas::orangeinp::detail::PostfixLogicBuilder;
using celeritas::orangeinp::detail::SenseEvaluator;

namespace celeritas
{
namespace detail
{
int verif_calc_max_depth(Span<logic_int const> s)
{
    return calc_max_depth(s);
}
}  // namespace detail
}  // namespace celeritas

namespace
{
using Toks = std::vector<std::string>;

Toks split(std::string const& s, char sep)
{
    Toks out;
    std::string cur;
    for (char c : s)
    {
        if (c == sep)
        {
            if (!cur.empty())
                out.push_back(cur);
            cur.clear();
        }
        else
            cur.push_back(c);
    }
    if (!cur.empty())
        out.push_back(cur);
    return out;
}

NodeId nid(std::string const& s)
{
    return NodeId{static_cast<NodeId::size_type>(std::stoul(s))};
}

Node parse_node(Toks const& t, std::size_t& i)
{
    std::string k = t.at(i++);
    if (k == "T")
        return Node{True{}};
    if (k == "F")
        return Node{False{}};
    if (k == "A")
        return Node{Aliased{nid(t.at(i++))}};
    if (k == "N")
        return Node{Negated{nid(t.at(i++))}};
    if (k == "S")
        return Node{Surface{LocalSurfaceId{
            static_cast<LocalSurfaceId::size_type>(std::stoul(t.at(i++)))}}};
    if (k == "J")
    {
        std::string o = t.at(i++);
        std::size_t n = std::stoul(t.at(i++));
        std::vector<NodeId> ids;
        for (std::size_t j = 0; j < n; ++j)
            ids.push_back(nid(t.at(i++)));
        return Node{Joined{o == "and" ? op_and : op_or, std::move(ids)}};
    }
    throw std::logic_error("bad node spec");
}

std::vector<std::string> parse_sigmas(Toks const& t, std::size_t& i)
{
    std::size_t n = std::stoul(t.at(i++));
    std::vector<std::string> out;
    for (std::size_t j = 0; j < n; ++j)
        out.push_back(t.at(i++));
    return out;
}

bool sig(std::string const& s, std::size_t i)
{
    return i < s.size() && s[i] == '1';
}

std::string tok_str(logic_int v)
{
    if (!logic::is_operator_token(v))
        return std::to_string(v);
    return std::string(1, to_char(static_cast<logic::OperatorToken>(v)));
}

void print_tree(CsgTree const& tree)
{
    std::cout << "t " << tree << " V ";
    bool first = true;
    for (auto v : tree.volumes())
    {
        if (!first)
            std::cout << ',';
        first = false;
        std::cout << v.unchecked_get();
    }
    std::cout << '\n';
}

std::string bits(std::vector<bool> const& b)
{
    if (b.empty())
        return "-";
    std::string s;
    for (bool x : b)
        s.push_back(x ? '1' : '0');
    return s;
}

void run_sequence(std::string const& line)
{
    CsgTree tree;
    for (auto const& opstr : split(line, '|'))
    {
        Toks t = split(opstr, ' ');
        if (t.empty())
            continue;
        std::size_t i = 1;
        std::string const& k = t[0];
        if (k == "i")
        {
            auto [id, inserted] = tree.insert(parse_node(t, i));
            std::cout << "i " << id.unchecked_get() << ' ' << (inserted ? 1 : 0)
                      << '\n';
            print_tree(tree);
        }
        else if (k == "v")
        {
            tree.insert_volume(nid(t.at(1)));
            std::cout << "v\n";
            print_tree(tree);
        }
        else if (k == "x")
        {
            NodeId n = nid(t.at(i++));
            Node old = tree.exchange(n, parse_node(t, i));
            std::cout << "n " << old << '\n';
            print_tree(tree);
        }
        else if (k == "y")
        {
            auto r = tree.simplify(nid(t.at(1)));
            if (r)
                std::cout << "o " << *r << '\n';
            else
                std::cout << "o -\n";
            print_tree(tree);
        }
        else if (k == "r")
        {
            auto unk = replace_and_simplify(
                &tree, nid(t.at(1)), t.at(2) == "T" ? Node{True{}} : Node{False{}});
            std::cout << "l ";
            bool first = true;
            for (auto u : unk)
            {
                if (!first)
                    std::cout << ' ';
                first = false;
                std::cout << u.unchecked_get();
            }
            std::cout << '\n';
            print_tree(tree);
        }
        else if (k == "m")
        {
            simplify(&tree, nid(t.at(1)));
            std::cout << "u\n";
            print_tree(tree);
        }
        else if (k == "u")
        {
            NodeId r = simplify_up(&tree, nid(t.at(1)));
            if (r)
                std::cout << "k " << r.unchecked_get() << '\n';
            else
                std::cout << "k -\n";
            print_tree(tree);
        }
        else if (k == "d")
        {
            CsgTree result = transform_negated_joins(tree);
            tree = std::move(result);
            std::cout << "u\n";
            print_tree(tree);
        }
        else if (k == "p")
        {
            NodeId n = nid(t.at(i++));
            std::vector<LocalSurfaceId> mapping;
            bool has_map = false;
            if (t.at(i) == "-")
                ++i;
            else
            {
                has_map = true;
                std::size_t m = std::stoul(t.at(i++));
                for (std::size_t j = 0; j < m; ++j)
                    mapping.push_back(LocalSurfaceId{
                        static_cast<size_type>(std::stoul(t.at(i++)))});
            }
            auto sigmas = parse_sigmas(t, i);
            auto result = has_map ? PostfixLogicBuilder{tree, mapping}(n)
                                  : PostfixLogicBuilder{tree}(n);
            auto const& faces = result.first;
            auto const& lgc = result.second;
            std::cout << "p F ";
            for (std::size_t j = 0; j < faces.size(); ++j)
                std::cout << (j ? " " : "") << faces[j].unchecked_get();
            std::cout << " L ";
            for (std::size_t j = 0; j < lgc.size(); ++j)
                std::cout << (j ? " " : "") << tok_str(lgc[j]);
            int depth = celeritas::detail::verif_calc_max_depth(make_span(lgc));
            std::cout << " D ";
            if (depth > 0)
                std::cout << depth;
            else
                std::cout << "invalid";
            std::vector<bool> evals;
            if (depth > 0
                && depth <= int(celeritas::detail::LogicStack::max_stack_depth()))
            {
                for (auto const& sg : sigmas)
                {
                    std::vector<Sense> senses;
                    for (auto f : faces)
                    {
                        std::size_t surf = has_map
                                               ? mapping.at(f.unchecked_get())
                                                     .unchecked_get()
                                               : f.unchecked_get();
                        senses.push_back(to_sense(sig(sg, surf)));
                    }
                    celeritas::detail::LogicEvaluator ev{make_span(lgc)};
                    evals.push_back(ev(make_span(senses)));
                }
            }
            std::cout << " E " << bits(evals) << '\n';
        }
        else if (k == "s")
        {
            std::cout << "s " << build_infix_string(tree, nid(t.at(1))) << '\n';
        }
        else if (k == "g")
        {
            InternalSurfaceFlagger flag(tree);
            std::cout << "g " << (flag(nid(t.at(1))) ? 1 : 0) << '\n';
        }
        else if (k == "e")
        {
            NodeId n = nid(t.at(i++));
            auto sigmas = parse_sigmas(t, i);
            std::vector<bool> evals;
            for (auto const& sg : sigmas)
            {
                // surface node s is "true" iff the point is on the positive
                // side of surface s: PlaneX at -1 (true) or +1 (false), point 0
                std::vector<VariantSurface> surfaces;
                for (std::size_t s = 0; s < sg.size(); ++s)
                    surfaces.push_back(PlaneX{sig(sg, s) ? -1.0 : 1.0});
                SenseEvaluator ev(tree, surfaces, Real3{0, 0, 0});
                evals.push_back(ev(n) == SignedSense::inside);
            }
            std::cout << "e " << bits(evals) << '\n';
        }
        else if (k == "q")
        {
            // infix logic form is built by the model only (no builder in the
            // repository): nothing to print on this side
        }
        else
            throw std::logic_error("bad op " + k);
        // so that the records of completed ops survive a watchdog exit
        std::cout << std::flush;
    }
}

logic_int parse_tok(std::string const& s)
{
    if (s == "(")
        return logic::lopen;
    if (s == ")")
        return logic::lclose;
    if (s == "*")
        return logic::ltrue;
    if (s == "|")
        return logic::lor;
    if (s == "&")
        return logic::land;
    if (s == "~")
        return logic::lnot;
    return static_cast<logic_int>(std::stoul(s));
}
}  // namespace

// Watchdog: the real code may fail to terminate (e.g. on a tree whose invariants were broken by a
// defect). On expiry print a marker for the current sequence / case and leave the process; the
// runner restarts after that sequence and reports a "hang" with it as the replay.
extern "C" void on_alarm(int)
{
    static char const msg[] = "\n! hang\n";
    ssize_t r = write(1, msg, sizeof(msg) - 1);
    (void)r;
    _exit(3);
}

int main(int argc, char** argv)
{
    std::string mode = argc > 1 ? argv[1] : "seq";
    unsigned budget = argc > 2 ? static_cast<unsigned>(std::atoi(argv[2])) : 8u;
    std::signal(SIGALRM, on_alarm);
    if (mode == "width")
    {
        // width in bits of LogicStack's word (size_type)
        std::cout << celeritas::detail::LogicStack::max_stack_depth() << '\n';
        return 0;
    }
    std::string line;
    while (std::getline(std::cin, line))
    {
        if (mode == "seq")
        {
            alarm(budget);
            try
            {
                run_sequence(line);
            }
            catch (std::exception const&)
            {
                std::cout << "! throw\n";
            }
            alarm(0);
            std::cout << ".\n" << std::flush;
        }
        else
        {
            Toks t = split(line, ' ');
            if (t.size() < 2)
                continue;
            alarm(budget);
            std::vector<logic_int> lgc;
            for (std::size_t j = 2; j < t.size(); ++j)
                lgc.push_back(parse_tok(t[j]));
            std::string vals = t[1] == "-" ? "" : t[1];
            if (t[0] == "post")
            {
                std::vector<Sense> senses;
                for (char c : vals)
                    senses.push_back(to_sense(c == '1'));
                celeritas::detail::LogicEvaluator ev{make_span(lgc)};
                std::cout << (ev(make_span(senses)) ? 1 : 0) << '\n';
            }
            else if (t[0] == "infix")
            {
                celeritas::detail::InfixEvaluator ev{make_span(lgc)};
                bool r = ev([&vals](FaceId f) {
                    return f.unchecked_get() < vals.size()
                           && vals[f.unchecked_get()] == '1';
                });
                std::cout << (r ? 1 : 0) << '\n';
            }
            else if (t[0] == "depth")
            {
                int d = celeritas::detail::verif_calc_max_depth(make_span(lgc));
                if (d > 0)
                    std::cout << d << '\n';
                else
                    std::cout << "invalid\n";
            }
            std::cout << std::flush;
            alarm(0);
        }
    }
    return 0;
}
