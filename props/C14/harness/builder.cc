// C14 correspondence harness for the REAL table builders of
// celeritas/grid/ValueGridBuilder.cc (links libceleritas):
//   ValueGridXsBuilder (constructor, from_geant, from_scaled),
//   ValueGridLogBuilder (from_geant, from_range)
// followed by XsCalculator / RangeCalculator on the built grid.
//
// Input line (hex floats):
//   vgb <mode> <k> n E_1..E_n  n x_1..x_n  m q_1..q_m
//     mode 0: ValueGridXsBuilder(E_1, E_k, E_n, stored)      (k = prime knot)
//     mode 1: from_geant(E[..k], x[..k], E[k..], x[k..]*E)   (k >= 1), from_scaled for k = 0
//     mode 2: ValueGridLogBuilder::from_geant(E, x)          (no scaling; k ignored)
//     mode 3: ValueGridLogBuilder::from_range(E, x) + RangeCalculator
//   x_i are the PHYSICAL (unscaled) table values; q_j are query energies.
// Output: prime_index(-1 = none) log_emin log_eprime log_emax size | calc(q_j)... | calc[i] for all i
#include <cmath>
#include <iostream>
#include <sstream>
#include <string>
#include <vector>

#include "corecel/Types.hh"
#include "corecel/cont/Span.hh"
#include "corecel/data/Collection.hh"
#include "celeritas/grid/RangeCalculator.hh"
#include "celeritas/grid/ValueGridBuilder.hh"
#include "celeritas/grid/ValueGridInserter.hh"
#include "celeritas/grid/XsCalculator.hh"
#include "celeritas/grid/XsGridData.hh"

#include "../../../harness/common.hh"

using namespace celeritas;
using verif::hex;
using verif::rd;
using verif::rdvec;

int main()
{
    std::ios::sync_with_stdio(false);
    std::string line;
    while (std::getline(std::cin, line))
    {
        std::istringstream is(line);
        std::ostringstream os;
        std::string cmd;
        is >> cmd;
        if (cmd == "fgeant")
        {
            // ValueGridXsBuilder::from_geant on the four imported arrays as given:
            //   fgeant n lambda_energy.. n lambda.. n lambda_prim_energy.. n lambda_prim..
            // -> "threw <msg>" | prime size log_emin log_eprime log_emax | stored values
            std::vector<double> le = rdvec(is), l = rdvec(is), pe = rdvec(is), lp = rdvec(is);
            Collection<real_type, Ownership::value, MemSpace::host> reals;
            Collection<XsGridData, Ownership::value, MemSpace::host> grids;
            ValueGridInserter insert(&reals, &grids);
            try
            {
                auto builder = ValueGridXsBuilder::from_geant(
                    make_span(le), make_span(l), make_span(pe), make_span(lp));
                auto id = builder->build(insert);
                XsGridData const& g = grids[id];
                Collection<real_type, Ownership::const_reference, MemSpace::host> ref;
                ref = reals;
                os << (g.prime_index == XsGridData::no_scaling() ? -1L : static_cast<long>(g.prime_index))
                   << ' ' << g.log_energy.size << ' ' << hex(g.log_energy.front) << ' '
                   << hex(std::log(pe.front())) << ' ' << hex(g.log_energy.back) << " |";
                for (real_type v : ref[g.value])
                    os << ' ' << hex(v);
            }
            catch (std::exception const& e)
            {
                os << "threw";
            }
            std::cout << os.str() << '\n';
            continue;
        }
        if (cmd != "vgb")
        {
            std::cout << "unknown-command " << cmd << '\n';
            continue;
        }
        int mode;
        long k;
        is >> mode >> k;
        std::vector<double> energy = rdvec(is);
        std::vector<double> phys = rdvec(is);
        std::vector<double> query = rdvec(is);
        std::size_t const n = energy.size();

        Collection<real_type, Ownership::value, MemSpace::host> reals;
        Collection<XsGridData, Ownership::value, MemSpace::host> grids;
        ValueGridInserter insert(&reals, &grids);

        std::unique_ptr<ValueGridBuilder> builder;
        try
        {
            if (mode == 0 || mode == 1)
            {
                std::vector<double> stored(n);
                for (std::size_t i = 0; i < n; ++i)
                    stored[i] = phys[i] * (static_cast<long>(i) >= k ? energy[i] : 1.0);
                if (mode == 0)
                {
                    builder = std::make_unique<ValueGridXsBuilder>(
                        energy.front(), energy[k], energy.back(), stored);
                }
                else if (k == 0)
                {
                    builder = ValueGridXsBuilder::from_scaled(make_span(energy), make_span(stored));
                }
                else
                {
                    // lambda table up to and including knot k (unscaled),
                    // lambda_prim table from knot k on (scaled by E)
                    std::vector<double> lo_e(energy.begin(), energy.begin() + k + 1);
                    std::vector<double> lo_x(phys.begin(), phys.begin() + k + 1);
                    std::vector<double> hi_e(energy.begin() + k, energy.end());
                    std::vector<double> hi_x(stored.begin() + k, stored.end());
                    builder = ValueGridXsBuilder::from_geant(
                        make_span(lo_e), make_span(lo_x), make_span(hi_e), make_span(hi_x));
                }
            }
            else if (mode == 2)
            {
                builder = ValueGridLogBuilder::from_geant(make_span(energy), make_span(phys));
            }
            else
            {
                builder = ValueGridLogBuilder::from_range(make_span(energy), make_span(phys));
            }
            auto id = builder->build(insert);
            XsGridData const& g = grids[id];
            Collection<real_type, Ownership::const_reference, MemSpace::host> ref;
            ref = reals;
            os << (g.prime_index == XsGridData::no_scaling() ? -1L : static_cast<long>(g.prime_index))
               << ' ' << hex(std::log(energy.front())) << ' '
               << hex(std::log(energy[k >= 0 ? k : 0])) << ' ' << hex(std::log(energy.back()))
               << ' ' << g.log_energy.size << " |";
            if (mode == 3)
            {
                RangeCalculator calc(g, ref);
                for (double q : query)
                    os << ' ' << hex(calc(RangeCalculator::Energy{q}));
                os << " |";
            }
            else
            {
                XsCalculator calc(g, ref);
                for (double q : query)
                    os << ' ' << hex(calc(XsCalculator::Energy{q}));
                os << " |";
                for (std::size_t i = 0; i < n; ++i)
                    os << ' ' << hex(calc[static_cast<size_type>(i)]);
            }
        }
        catch (std::exception const& e)
        {
            std::string what = e.what();
            for (auto& c : what)
                if (c == '\n')
                    c = ' ';
            os << "exception " << what.substr(0, 200);
        }
        std::cout << os.str() << '\n';
    }
    return 0;
}
