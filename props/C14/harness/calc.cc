// C14 correspondence harness: real header-only calculators on generated tables.
//   XsCalculator / RangeCalculator / InverseRangeCalculator,
//   calc_mean_energy_loss (through real ParticleTrackView / PhysicsTrackView on
//   hand-built host collections), MscStepToGeo (with the real UrbanMscHelper)
//   and MscStepFromGeo.
// One command per line (hex floats); one output line per command.
#include <cmath>
#include <iostream>
#include <sstream>
#include <string>
#include <vector>

#include "corecel/Types.hh"
#include "corecel/data/Collection.hh"
#include "corecel/data/CollectionBuilder.hh"
#include "corecel/grid/UniformGridData.hh"
#include "celeritas/Quantities.hh"
#include "celeritas/em/data/UrbanMscData.hh"
#include "celeritas/em/msc/detail/MscStepFromGeo.hh"
#include "celeritas/em/msc/detail/MscStepToGeo.hh"
#include "celeritas/em/msc/detail/UrbanMscHelper.hh"
#include "celeritas/grid/EnergyLossCalculator.hh"
#include "celeritas/grid/GenericCalculator.hh"
#include "celeritas/grid/GenericGridData.hh"
#include "celeritas/grid/InverseRangeCalculator.hh"
#include "celeritas/grid/RangeCalculator.hh"
#include "celeritas/grid/XsCalculator.hh"
#include "celeritas/grid/XsGridData.hh"
#include "celeritas/phys/ParticleData.hh"
#include "celeritas/phys/ParticleTrackView.hh"
#include "celeritas/phys/PhysicsData.hh"
#include "celeritas/phys/PhysicsStepUtils.hh"
#include "celeritas/phys/PhysicsTrackView.hh"

#include "../../../harness/common.hh"

using namespace celeritas;
using verif::hex;
using verif::rd;
using verif::rdvec;

template<class T>
using HostItems = Collection<T, Ownership::value, MemSpace::host>;
template<class T>
static ItemRange<T> one(ItemId<T> id)
{
    return ItemRange<T>(id, ItemId<T>(static_cast<size_type>(id.get() + 1)));
}
using HostRealsRef
    = Collection<real_type, Ownership::const_reference, MemSpace::host>;

struct Table
{
    std::vector<double> values;
    double front, back;
    long prime;  // -1: no scaling
};

static Table read_table(std::istream& is)
{
    Table t;
    t.values = rdvec(is);
    t.front = rd(is);
    t.back = rd(is);
    is >> t.prime;
    return t;
}

static XsGridData make_grid(HostItems<real_type>& reals, Table const& t)
{
    XsGridData g;
    g.log_energy = UniformGridData::from_bounds(
        t.front, t.back, static_cast<size_type>(t.values.size()));
    g.prime_index = t.prime < 0 ? XsGridData::no_scaling()
                                : static_cast<size_type>(t.prime);
    g.value = make_builder(&reals).insert_back(t.values.begin(), t.values.end());
    return g;
}

//! Minimal physics problem: one particle, one process with dedx + range tables
struct Problem
{
    HostVal<PhysicsParamsData> params;
    HostCRef<PhysicsParamsData> params_ref;
    HostVal<PhysicsStateData> state;
    HostRef<PhysicsStateData> state_ref;
    HostVal<ParticleParamsData> par_params;
    HostCRef<ParticleParamsData> par_params_ref;
    HostVal<ParticleStateData> par_state;
    HostRef<ParticleStateData> par_state_ref;

    Problem(Table const& dedx, Table const& range, double lll, double energy, double dedx_range)
    {
        // padding so that no offset is zero
        std::vector<double> pad{-7.0, -8.0};
        make_builder(&params.reals).insert_back(pad.begin(), pad.end());
        auto grids = make_builder(&params.value_grids);
        ValueGridId dedx_gid = grids.push_back(make_grid(params.reals, dedx));
        ValueGridId range_gid = grids.push_back(make_grid(params.reals, range));
        auto gids = make_builder(&params.value_grid_ids);
        ValueTable dedx_table, range_table, empty_table;
        dedx_table.grids = one(gids.push_back(dedx_gid));
        range_table.grids = one(gids.push_back(range_gid));
        auto tables = make_builder(&params.value_tables);
        ProcessGroup pg;
        {
            pg.tables[ValueGridType::macro_xs] = one(tables.push_back(empty_table));
            pg.tables[ValueGridType::energy_loss] = one(tables.push_back(dedx_table));
            pg.tables[ValueGridType::range] = one(tables.push_back(range_table));
        }
        auto pid = make_builder(&params.process_ids).push_back(ProcessId{0});
        pg.processes = one(pid);
        pg.eloss_ppid = ParticleProcessId{0};
        make_builder(&params.process_groups).push_back(pg);
        params.scalars.linear_loss_limit = lll;
        params_ref = params;

        resize(&state.state, 1);
        state.state[TrackSlotId{0}].dedx_range = dedx_range;
        state_ref = state;

        resize(&par_state.particle_id, 1);
        resize(&par_state.particle_energy, 1);
        par_state.particle_id[TrackSlotId{0}] = ParticleId{0};
        par_state.particle_energy[TrackSlotId{0}] = energy;
        par_state_ref = par_state;
        par_params_ref = par_params;
    }

    ParticleTrackView particle() const
    {
        return ParticleTrackView(par_params_ref, par_state_ref, TrackSlotId{0});
    }
    PhysicsTrackView physics() const
    {
        return PhysicsTrackView(params_ref, state_ref, ParticleId{0}, MaterialId{0}, TrackSlotId{0});
    }
};

int main()
{
    std::ios::sync_with_stdio(false);
    std::string line;
    while (std::getline(std::cin, line))
    {
        std::istringstream is(line);
        std::ostringstream os;
        std::string cmd;
        is >> cmd;
        if (cmd == "consts")
        {
            os << hex(UrbanMscParameters::min_step()) << ' '
               << hex(UrbanMscParameters::dtrl()) << ' '
               << hex(MscStep::small_step_alpha());
        }
        else if (cmd == "xs" || cmd == "range" || cmd == "invrange" || cmd == "xsat")
        {
            Table t = read_table(is);
            auto args = rdvec(is);
            HostItems<real_type> reals;
            std::vector<double> pad{-1.0};
            make_builder(&reals).insert_back(pad.begin(), pad.end());
            XsGridData g = make_grid(reals, t);
            HostRealsRef ref;
            ref = reals;
            for (double a : args)
            {
                if (cmd == "xs")
                    os << ' ' << hex(XsCalculator(g, ref)(XsCalculator::Energy{a}));
                else if (cmd == "xsat")
                    os << ' ' << hex(XsCalculator(g, ref)[static_cast<size_type>(a)]);
                else if (cmd == "range")
                    os << ' ' << hex(RangeCalculator(g, ref)(RangeCalculator::Energy{a}));
                else
                    os << ' ' << hex(InverseRangeCalculator(g, ref)(a).value());
            }
        }
        else if (cmd == "eloss")
        {
            Table dedx = read_table(is);
            Table range = read_table(is);
            double lll = rd(is), energy = rd(is), dedx_range = rd(is);
            auto steps = rdvec(is);
            Problem prob(dedx, range, lll, energy, dedx_range);
            auto particle = prob.particle();
            auto physics = prob.physics();
            for (double s : steps)
                os << ' ' << hex(calc_mean_energy_loss(particle, physics, s).value());
            // the energy loss rate the function used (for the branch classification)
            {
                auto gid = physics.value_grid(ValueGridType::energy_loss, physics.eloss_ppid());
                auto calc = physics.make_calculator<EnergyLossCalculator>(gid);
                os << " | " << hex(calc(particle.energy()));
            }
        }
        else if (cmd == "togeo" || cmd == "msc")
        {
            Table mscxs = read_table(is);
            Table range_t = read_table(is);
            double emass = rd(is), energy = rd(is), lambda = rd(is), range = rd(is);
            auto tsteps = rdvec(is);
            Table dedx = range_t;  // unused by MscStepToGeo
            Problem prob(dedx, range_t, 0.01, energy, range);
            HostVal<UrbanMscData> msc;
            msc.ids.electron = ParticleId{0};
            msc.ids.positron = ParticleId{1};
            msc.electron_mass = units::MevMass{emass};
            make_builder(&msc.xs).push_back(make_grid(msc.reals, mscxs));
            make_builder(&msc.par_mat_data).push_back(UrbanMscParMatData{1.0, 1.0});
            make_builder(&msc.material_data).push_back(UrbanMscMaterialData{});
            HostCRef<UrbanMscData> msc_ref;
            msc_ref = msc;
            auto particle = prob.particle();
            auto physics = prob.physics();
            detail::UrbanMscHelper helper(msc_ref, particle, physics);
            detail::MscStepToGeo to_geo(msc_ref, helper, units::MevEnergy{energy}, lambda, range);
            for (double t : tsteps)
            {
                auto r = to_geo(t);
                os << ' ' << hex(r.step) << ' ' << hex(r.alpha);
                if (cmd == "msc")
                {
                    // convert back geometry-limited fractions of the geometric path
                    MscStep step;
                    step.true_path = t;
                    step.geom_path = r.step;
                    step.alpha = r.alpha;
                    detail::MscStepFromGeo from_geo(msc_ref.params, step, range, lambda);
                    double const gs[] = {r.step, std::nextafter(r.step, 0.0), r.step * 0.5, r.step * 1e-3};
                    for (double g : gs)
                        os << ' ' << hex(from_geo(g));
                }
            }
            os << " | " << hex(helper.msc_mfp());
        }
        else if (cmd == "fromgeo")
        {
            double true_path = rd(is), alpha = rd(is), range = rd(is), lambda = rd(is);
            auto gsteps = rdvec(is);
            UrbanMscParameters params;
            MscStep step;
            step.true_path = true_path;
            step.alpha = alpha;
            detail::MscStepFromGeo from_geo(params, step, range, lambda);
            for (double g : gsteps)
                os << ' ' << hex(from_geo(g));
        }
        else if (cmd == "generic" || cmd == "geninv" || cmd == "genmk")
        {
            // GenericCalculator on a nonuniform grid: operator(), from_inverse, make_inverse
            auto xs = rdvec(is);
            auto ys = rdvec(is);
            auto args = rdvec(is);
            HostItems<real_type> reals;
            std::vector<double> pad{-3.0, -5.0};
            make_builder(&reals).insert_back(pad.begin(), pad.end());
            GenericGridRecord rec;
            rec.grid = make_builder(&reals).insert_back(xs.begin(), xs.end());
            rec.value = make_builder(&reals).insert_back(ys.begin(), ys.end());
            HostRealsRef ref;
            ref = reals;
            GenericCalculator fwd(rec, ref);
            for (double a : args)
            {
                if (cmd == "generic")
                    os << ' ' << hex(fwd(a));
                else if (cmd == "geninv")
                    os << ' ' << hex(GenericCalculator::from_inverse(rec, ref)(a));
                else
                    os << ' ' << hex(fwd.make_inverse()(a));
            }
            os << " |";
            for (size_type i = 0; i < fwd.grid().size(); ++i)
                os << ' ' << hex(fwd[i]);
        }
        else
        {
            os << "unknown-command " << cmd;
        }
        std::cout << os.str() << '\n';
    }
    return 0;
}
