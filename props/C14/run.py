"""C14 — physics table lookups, continuous loss, MSC path conversions.

Proofs: coq/Properties_C14.v (instance R).  Tie: the float instance of the
same model (coq/C14/Run.v, vm_compute) against the real header-only
calculators (harness/calc.cc) on generated tables; property oracle on the
implementation's outputs.
"""
import bisect, math, os
import vlib
from vlib import hexf, close

HERE = os.path.dirname(os.path.abspath(__file__))
PRE = ("From Coq Require Import ZArith List Floats.\n"
       "From Celer Require Import Base.Num Base.NumF C14.Run.\n"
       "Import ListNotations.\nOpen Scope float_scope.\n")


def hx(x):
    return float(x).hex()


def fl(xs):
    return "[" + "; ".join(hexf(x) for x in xs) + "]"


def ulps(x, k):
    for _ in range(abs(k)):
        x = math.nextafter(x, math.inf if k > 0 else -math.inf)
    return x


def pf(t):
    return float(t) if t in ("nan", "inf", "-inf") else float.fromhex(t)


class Table:
    """log-spaced table as handed to XsGridData (values already scaled by E from prime on)"""

    def __init__(self, raw, front, back, prime):
        self.n = len(raw)
        self.front, self.back, self.prime = front, back, prime
        self.delta = (back - front) / (self.n - 1)
        self.knots = [math.exp(front + self.delta * i) for i in range(self.n)]
        self.raw = raw                     # unscaled function values at the knots
        self.values = [v * e if (prime >= 0 and i >= prime) else v
                       for i, (v, e) in enumerate(zip(raw, self.knots))]

    def cmd(self):
        return "%d %s %s %s %d" % (self.n, " ".join(map(hx, self.values)), hx(self.front), hx(self.back), self.prime)

    def coq(self):
        return "%s %s %s (%d)" % (fl(self.values), hexf(self.front), hexf(self.back), self.prime)

    def knot_value(self, i):
        """xs_at(i) as the property defines it (value at the knot)"""
        return self.values[i] / self.knots[i] if (self.prime >= 0 and i >= self.prime) else self.values[i]


def gen_table(r, kind, prime_mode=None, n=None):
    if n is None:
        n = r.choice([2, 2, 3, 4, 5, 8, 16, 33, 64, 100, 200, r.randrange(2, 201)])
    emin = 10 ** r.uniform(-6, 1)
    span = r.uniform(0.3, 25.0) if n > 2 else r.uniform(0.3, 6.0)
    front = math.log(emin)
    back = front + span
    if kind == "range":
        v = 10 ** r.uniform(-6, 3)
        raw = [v]
        for _ in range(n - 1):
            raw.append(raw[-1] * r.uniform(1.01, 3.0))
        prime = -1
    else:
        v = 10 ** r.uniform(-4, 4)
        raw = []
        for _ in range(n):
            raw.append(v)
            v *= r.uniform(0.2, 5.0)
        if prime_mode is None:
            prime_mode = r.choice(["none", "zero", "one", "last", "prelast", "any", "any"])
        prime = {"none": -1, "zero": 0, "one": min(1, n - 1), "last": n - 1, "prelast": n - 2}.get(prime_mode)
        if prime is None:
            prime = r.randrange(0, n)
    return Table(raw, front, back, prime)


def energies_for(r, t, full):
    idx = {0, 1, t.n - 2, t.n - 1}
    if t.prime >= 0:
        idx |= {max(0, t.prime - 1), t.prime, min(t.n - 1, t.prime + 1)}
    while len(idx) < min(t.n, 9 if full else 6):
        idx.add(r.randrange(t.n))
    es = []
    for i in sorted(idx):
        for k in (-2, -1, 0, 1, 2):
            es.append(ulps(t.knots[i], k))
    es += [t.knots[0] * 1e-3, t.knots[0] * 0.5, t.knots[-1] * 2, t.knots[-1] * 1e3, 1e-12, 1e12]
    for _ in range(4):
        es.append(math.exp(r.uniform(t.front, t.back)))
    return es


def py_range(t, e):
    """approximate RangeCalculator, only used to generate valid inputs"""
    le = math.log(e)
    if le <= t.front:
        return t.values[0] * math.sqrt(e / t.knots[0])
    if le >= t.back:
        return t.values[-1]
    i = min(t.n - 2, max(0, bisect.bisect_right(t.knots, e) - 1))
    f = (e - t.knots[i]) / (t.knots[i + 1] - t.knots[i])
    return t.values[i] + f * (t.values[i + 1] - t.values[i])


# --------------------------------------------------------------------------

def gen_cases(ctx, consts):
    r = ctx.rng
    thorough = ctx.tier != "quick"
    min_step, dtrl, small = consts
    C = []   # (kind, payload dict)
    # corpus: F3 (grid 0..1 x 4 knots in log E, energy one ulp below the top) and the F7 witness
    t = Table([1.0, 2.0, 3.0, 4.0], 0.0, 1.0, -1)
    C.append(("xs", dict(t=t, args=[math.exp(math.nextafter(1.0, 0.0)), ulps(math.e, -1), ulps(math.e, -2)])))
    C.append(("range", dict(t=t, args=[math.exp(math.nextafter(1.0, 0.0)), ulps(math.e, -1), ulps(math.e, -2)])))
    C.append(("eloss", dict(d=Table([1.0, 1.0], 0.0, 1.0, -1), rt=Table([2.0, 4.0], 0.0, 1.0, -1),
                            lll=0.01, e=1.0, range=2.0, args=[0.00999, 0.01, 2.0], mono=True)))
    modes = ["none", "zero", "one", "last", "prelast", "any"]
    nxs = 36 if not thorough else 400
    for i in range(nxs):
        n = None
        mode = modes[i % len(modes)]
        if i < 24 and not thorough or (thorough and i < 150):
            n = r.choice([2, 3, 4, 5, 6, 7])
        t = gen_table(r, "xs", mode, n)
        if n is not None and mode == "any":
            t = Table(t.raw, t.front, t.back, i // len(modes) % t.n)     # every position for small tables
        C.append(("xs", dict(t=t, args=energies_for(r, t, thorough))))
        C.append(("xsat", dict(t=t, args=sorted({0, 1, t.n - 1, max(0, t.prime), r.randrange(t.n)}))))
    for i in range(20 if not thorough else 200):
        t = gen_table(r, "range")
        C.append(("range", dict(t=t, args=sorted(energies_for(r, t, thorough)))))
        rs = []
        for j in sorted({0, 1, t.n - 2, t.n - 1, r.randrange(t.n), r.randrange(t.n)}):
            for k in (-1, 0, 1):
                rs.append(ulps(t.values[j], k))
        rs += [t.values[0] * 1e-6, t.values[0] * 0.5, t.values[0] * r.random()]
        rs += [r.uniform(t.values[0], t.values[-1]) for _ in range(4)]
        rs = sorted(x for x in rs if 0 < x <= t.values[-1])
        C.append(("invrange", dict(t=t, args=rs)))
    for i in range(40 if not thorough else 400):
        d = gen_table(r, "xs", n=r.choice([2, 3, 5, 17, 60]))
        rt = gen_table(r, "range", n=d.n)
        rt = Table(rt.raw, d.front, d.back, -1)          # same energy grid for both tables
        consistent = r.random() < 0.5
        if consistent:   # range = integral of dE / dedx (trapezoid), tables physically consistent
            ded = [d.knot_value(j) for j in range(d.n)]
            rr = [2 * d.knots[0] / ded[0]]
            for j in range(1, d.n):
                rr.append(rr[-1] + (d.knots[j] - d.knots[j - 1]) * 0.5 * (1 / ded[j] + 1 / ded[j - 1]))
            if all(x < y for x, y in zip(rr, rr[1:])):
                rt = Table(rr, d.front, d.back, -1)
            else:
                # dE/dx so large that an increment of the integral is below one ulp of the running sum:
                # the table would have duplicated range values, outside the precondition "strictly
                # increasing" (NonuniformGrid / InverseRangeCalculator); keep the independent range table
                consistent = False
        e = r.choice([d.knots[0], d.knots[-1], d.knots[0] * r.uniform(0.01, 1), d.knots[-1] * r.uniform(1, 10),
                      math.exp(r.uniform(d.front, d.back)), math.exp(r.uniform(d.front, d.back))])
        rng = py_range(rt, e)
        lll = r.choice([0.01, 0.01, 1e-3, 0.1, 0.5, 1.0])
        steps = [rng, ulps(rng, -1), ulps(rng, -2), rng * (1 - 1e-8), rng * 0.5, rng * 1e-3, rng * 1e-9]
        steps += [rng * r.random() for _ in range(3)]
        # around the linear/range switch  step * dedx = lll * E  (dedx estimated from the knot values)
        j = min(d.n - 2, max(0, bisect.bisect_right(d.knots, e) - 1))
        dedx_est = d.knot_value(j)
        sw = lll * e / dedx_est
        steps += [sw * f for f in (0.5, 0.9, 0.999, 1.001, 1.1, 2.0)]
        steps = sorted(s for s in set(steps) if 0 < s <= rng)
        C.append(("eloss", dict(d=d, rt=rt, lll=lll, e=e, range=rng, args=steps, consistent=consistent)))
    # smooth tables whose range table is the EXACT integral of 1/dEdx of the interpolated dE/dx:
    # here the monotonicity oracle runs (known finding F7 at the switch, anything else is a violation)
    for i in range(16 if not thorough else 200):
        n = r.choice([64, 100, 200])
        front = math.log(10 ** r.uniform(-3, 1)); back = front + r.uniform(0.5, 3.0)
        delta = (back - front) / (n - 1)
        kap = r.uniform(-2, 2); v = 10 ** r.uniform(-2, 2); raw = []
        for j in range(n):
            raw.append(v)
            kap = min(2.0, max(-2.0, kap + r.uniform(-0.3, 0.3)))
            v *= math.exp(kap * delta)
        d = Table(raw, front, back, -1)
        rr = [2 * d.knots[0] / raw[0]]
        for j in range(1, n):
            e0, e1, y0, y1 = d.knots[j - 1], d.knots[j], raw[j - 1], raw[j]
            a_ = (y1 - y0) / (e1 - e0)
            seg = (e1 - e0) / y0 if abs(y1 - y0) < 1e-9 * y0 else math.log(y1 / y0) / a_
            rr.append(rr[-1] + seg)
        rt = Table(rr, front, back, -1)
        lll = r.choice([0.01, 0.01, 0.03, 0.1])
        e = math.exp(r.uniform(front + 0.4 * (back - front), back))
        rng = py_range(rt, e)
        j = min(n - 2, max(0, bisect.bisect_right(d.knots, e) - 1))
        f = (e - d.knots[j]) / (d.knots[j + 1] - d.knots[j])
        sw = lll * e / (raw[j] + f * (raw[j + 1] - raw[j]))
        steps = [sw * (1 + q * 1e-3) for q in range(-5, 6)] + [sw * 0.1, sw * 0.5, sw * 0.9, sw * 1.1, sw * 2, sw * 5,
                                                              rng * 0.5, ulps(rng, -1), rng]
        steps = sorted(s_ for s_ in set(steps) if 0 < s_ <= rng)
        C.append(("eloss", dict(d=d, rt=rt, lll=lll, e=e, range=rng, args=steps, mono=True)))
    for i in range(40 if not thorough else 400):
        m = gen_table(r, "xs", n=r.choice([2, 3, 5, 17]))
        rt = gen_table(r, "range", n=r.choice([2, 3, 5, 17]))
        emass = 0.5109989461
        e = r.choice([10 ** r.uniform(-4, -0.4), 10 ** r.uniform(-0.2, 3), math.exp(r.uniform(rt.front, rt.back))])
        lam = 10 ** r.uniform(-6, 6)
        rng = r.choice([py_range(rt, e), py_range(rt, e), min(rt.values[-1], 10 ** r.uniform(-6, 6))])
        ts = [rng, ulps(rng, -1), rng * dtrl, ulps(rng * dtrl, -1), ulps(rng * dtrl, 1), rng * 0.5, rng * 0.9,
              min_step, ulps(min_step, -1), ulps(min_step, 1), min_step * 0.1, rng * 1e-3, rng * 10 ** r.uniform(-12, 0)]
        ts += [lam * 10 ** r.uniform(-12, 0) for _ in range(2)]
        ts = sorted(x for x in set(ts) if 0 < x <= rng)
        C.append(("msc", dict(m=m, rt=rt, emass=emass, e=e, lam=lam, range=rng, args=ts)))
    # extreme mean-free-path / range ratios (1e-15 .. 1e15) in every branch of MscStepToGeo, with the
    # conversion back: the clamps (min(step, tstep), clamp(tstep, gstep, true)) are what guarantees
    # geom <= true and geom <= back <= true there, so the oracle tests them with zero slack
    bands = [(-15, -9), (-9, -3), (-3, 3), (3, 9), (9, 12), (12, 15), (12, 15)]
    for i in range(len(bands) * (6 if not thorough else 40)):
        lo, hi = bands[i % len(bands)]
        m = gen_table(r, "xs", n=r.choice([2, 3, 5, 17]))
        rt = gen_table(r, "range", n=r.choice([2, 3, 5, 17]))
        emass = 0.5109989461
        low_energy = (i // len(bands)) % 2 == 0
        if low_energy:     # alpha = 1/range branch for every tstep >= dtrl * range
            e = 10 ** r.uniform(-4, -0.4)
            rng = r.choice([py_range(rt, e), 10 ** r.uniform(-8, 8)])
        else:              # endpoint-energy branch (inverse range + msc mfp tables); tstep == range -> alpha = 1/range
            e = 10 ** r.uniform(-0.2, 3)
            rng = py_range(rt, e)
        lam = rng * 10 ** r.uniform(lo, hi)
        fr = [1.0, 0.999, 0.99, 0.9, 0.7, 0.5, 0.3, 0.1, dtrl * 1.5, dtrl, dtrl * 0.5, 1e-3] + [r.uniform(dtrl, 1) for _ in range(4)]
        ts = [rng * f for f in fr] + [ulps(rng, -1), ulps(rng * dtrl, -1), ulps(rng * dtrl, 1), min_step, ulps(min_step, -1), min_step * 3]
        ts = sorted(x for x in set(ts) if 0 < x <= rng)
        C.append(("msc", dict(m=m, rt=rt, emass=emass, e=e, lam=lam, range=rng, args=ts)))
    for i in range(60 if not thorough else 600):
        rng = 10 ** r.uniform(-6, 6)
        lam = rng * 10 ** r.choice([r.uniform(-6, 6), r.uniform(-15, 15)])
        true = rng * r.choice([1.0, 1.0, r.random(), 10 ** r.uniform(-12, 0)])
        alpha = r.choice([small, 1 / rng, 1 / rng, r.uniform(-1, 1) / rng, 10 ** r.uniform(-8, 2) / true,
                          -10 ** r.uniform(-8, 0) / true])
        gs = [true, ulps(true, -1), true * 0.5, true * 0.99, true * 10 ** r.uniform(-12, 0), min_step,
              ulps(min_step, -1), ulps(min_step, 1), min_step * 0.3]
        # implicit precondition: gstep <= geometric path of the true step (< lambda on the constant-xs branch)
        gmax = min(true, -lam * math.expm1(-true / lam) * (1 - 1e-12)) if alpha == small else true
        gs = sorted(x for x in set(gs + [gmax, gmax * 0.5, gmax * 0.99]) if 0 < x <= gmax)
        if gs:
            C.append(("fromgeo", dict(true=true, alpha=alpha, range=rng, lam=lam, args=gs)))
    return C + gen_generic_cases(ctx)


def case_line(k, p):
    a = p["args"]
    args = "%d %s" % (len(a), " ".join(map(hx, a)))
    if k in ("xs", "range", "invrange"):
        return "%s %s %s" % (k, p["t"].cmd(), args)
    if k in ("generic", "geninv", "genmk"):
        return "%s %d %s %d %s %s" % (k, len(p["xs"]), " ".join(map(hx, p["xs"])), len(p["ys"]), " ".join(map(hx, p["ys"])), args)
    if k == "xsat":
        return "xsat %s %d %s" % (p["t"].cmd(), len(a), " ".join(hx(float(i)) for i in a))
    if k == "eloss":
        return "eloss %s %s %s %s %s %s" % (p["d"].cmd(), p["rt"].cmd(), hx(p["lll"]), hx(p["e"]), hx(p["range"]), args)
    if k in ("togeo", "msc"):
        return k + " %s %s %s %s %s %s %s" % (p["m"].cmd(), p["rt"].cmd(), hx(p["emass"]), hx(p["e"]), hx(p["lam"]),
                                               hx(p["range"]), args)
    return "fromgeo %s %s %s %s %s" % (hx(p["true"]), hx(p["alpha"]), hx(p["range"]), hx(p["lam"]), args)


def case_expr(k, p, consts):
    a = p["args"]
    ms, dtrl, small = (hexf(c) for c in consts)
    if k in ("xs", "range", "invrange"):
        return "run_%s %s %s" % (k, p["t"].coq(), fl(a))
    if k in ("generic", "geninv", "genmk"):
        return "%s %s %s %s" % ("run_generic" if k == "generic" else "run_generic_inv", fl(p["xs"]), fl(p["ys"]), fl(a))
    if k == "xsat":
        return "run_xsat %s [%s]" % (p["t"].coq(), "; ".join("%d%%Z" % i for i in a))
    if k == "eloss":
        return "run_eloss %s %s %s %s %s %s" % (p["d"].coq(), p["rt"].coq(), hexf(p["lll"]), hexf(p["e"]),
                                                hexf(p["range"]), fl(a))
    if k in ("togeo", "msc"):
        return "run_" + k + " %s %s %s %s %s %s %s %s %s %s" % (ms, dtrl, small, p["m"].coq(), p["rt"].coq(), hexf(p["emass"]),
                                                           hexf(p["e"]), hexf(p["lam"]), hexf(p["range"]), fl(a))
    return "run_fromgeo %s %s %s %s %s %s %s" % (ms, small, hexf(p["true"]), hexf(p["alpha"]), hexf(p["range"]),
                                                 hexf(p["lam"]), fl(a))



# --------------------------------------------------------------------------
# GenericCalculator (nonuniform grid, linear interpolation, end clamping, inverse)

def gen_generic_cases(ctx):
    r = ctx.rng
    thorough = ctx.tier != "quick"
    C = []
    # corpus: the example of GenericProofs.v, a 2-point grid, grid points one ulp apart
    fixed = [([1.0, 2.0, 4.0], [3.0, 5.0, 6.0]), ([-1.0, 1.0], [2.0, -2.0]),
             ([1.0, ulps(1.0, 1), ulps(1.0, 2), 2.0], [0.0, 1.0, 3.0, 4.0])]
    ntab = 16 if not thorough else 300
    for ti in range(len(fixed) + ntab):
        if ti < len(fixed):
            xs, ys = fixed[ti]
            mono = all(a < b for a, b in zip(ys, ys[1:]))
        else:
            n = r.choice([2, 2, 3, 3, 4, 5, 8, 13, 40, r.randrange(2, 120)]) if thorough else r.choice([2, 2, 3, 3, 4, 5, 8, 13, r.randrange(2, 40)])
            style = r.randrange(4)
            if style == 0:      # positive, log-like spacing over many decades
                x = 10 ** r.uniform(-8, 2); xs = [x]
                for _ in range(n - 1):
                    x *= 1 + 10 ** r.uniform(-3, 1); xs.append(x)
            elif style == 1:    # signed, additive spacing
                x = r.uniform(-100, 100); xs = [x]
                for _ in range(n - 1):
                    x += 10 ** r.uniform(-6, 2); xs.append(x)
            elif style == 2:    # clusters of points a few ulp apart
                x = r.uniform(-10, 10); xs = [x]
                for _ in range(n - 1):
                    x = ulps(x, r.choice([1, 1, 2, 5])) if r.random() < 0.4 else x + 10 ** r.uniform(-3, 1)
                    xs.append(x)
            else:               # integers (exact arithmetic everywhere)
                xs = sorted(r.sample(range(-50, 200), n)); xs = [float(v) for v in xs]
            mono = r.random() < 0.5
            if mono:            # increasing values with a bounded slope: a well-conditioned inverse
                y = r.uniform(-5, 5); ys = [y]
                for a, b in zip(xs, xs[1:]):
                    y += max((b - a) * r.uniform(0.5, 2.0), 4 * math.ulp(y)); ys.append(y)
                if any(not a < b for a, b in zip(ys, ys[1:])):
                    mono = False
            else:
                kind = r.randrange(3)
                ys = [r.uniform(-3, 3) if kind == 0 else (10 ** r.uniform(-6, 6) if kind == 1 else float(r.randrange(0, 4)))
                      for _ in xs]
        n = len(xs)
        idx = sorted({0, 1, n - 2, n - 1} | {r.randrange(n) for _ in range(6)})
        q = []
        for i in idx:
            q += [ulps(xs[i], d) for d in (-2, -1, 0, 1, 2)]
        for i in sorted({0, n - 2} | {r.randrange(n - 1) for _ in range(4)}):
            q += [xs[i] + (xs[i + 1] - xs[i]) * f for f in (0.5, r.random(), 0.999)]
        span = xs[-1] - xs[0]
        q += [xs[0] - span, xs[0] - 1e-3 * span, xs[-1] + 1e-3 * span, xs[-1] + 10 * span, -1e300, 1e300]
        q = sorted(set(v for v in q if math.isfinite(v)))
        C.append(("generic", dict(xs=xs, ys=ys, args=q, mono=mono)))
        if mono:
            # inverse calculators, queried in y: from_inverse and make_inverse must agree, and invert
            qy = []
            for i in idx:
                qy += [ulps(ys[i], d) for d in (-1, 0, 1)]
            for i in sorted({0, n - 2} | {r.randrange(n - 1) for _ in range(4)}):
                qy += [ys[i] + (ys[i + 1] - ys[i]) * f for f in (0.5, r.random())]
            qy += [ys[0] - 1.0, ys[-1] + 1.0]
            qy = sorted(set(qy))
            C.append(("geninv", dict(xs=xs, ys=ys, args=qy, mono=True)))
            C.append(("genmk", dict(xs=xs, ys=ys, args=qy, mono=True)))
    return C


def generic_oracle(k, p, out):
    """property clauses on the implementation's outputs (x grid gx, values gy)"""
    gx, gy = (p["xs"], p["ys"]) if k == "generic" else (p["ys"], p["xs"])
    n = len(gx)
    scale = max(abs(v) for v in gy)
    slack = 1e-12 * scale + 1e-300
    if k == "generic" and p.get("at") is not None and p["at"] != gy:
        return "operator[] does not return the tabulated values", None
    prev = None
    for x, v in zip(p["args"], out):
        if x <= gx[0]:
            if v != gy[0]:
                return "below the grid the first value must be returned (constant extrapolation)", x
        elif x >= gx[-1]:
            if v != gy[-1]:
                return "above the grid the last value must be returned (constant extrapolation)", x
        else:
            i = bisect.bisect_right(gx, x) - 1
            if x == gx[i] and not close(v, gy[i], rtol=1e-12, atol=slack):
                return "lookup at grid point %d gives %r, the table says %r" % (i, v, gy[i]), x
            lo, hi = min(gy[i], gy[i + 1]), max(gy[i], gy[i + 1])
            if not (lo - slack <= v <= hi + slack):
                return "interpolated value %r not between the neighbouring values %r, %r" % (v, gy[i], gy[i + 1]), x
            if k != "generic":
                # inverse calculators: interpolating the ORIGINAL table at the result gives the query back
                dx, dy = gy[i + 1] - gy[i], gx[i + 1] - gx[i]          # original x step, original y step
                back = gx[i] + dy * ((v - gy[i]) / dx)
                tol = 1e-9 * abs(dy) + abs(dy) * 2 * math.ulp(v) / dx + 1e-12 * max(abs(gx[0]), abs(gx[-1]))
                if abs(back - x) > tol:
                    return "inverse calculator: the table interpolated at the result %r gives %r, not the query" % (v, back), x
            # continuity: within 2 ulp of a grid point the value is within the local variation
            for j in (i, i + 1):
                if abs(x - gx[j]) <= 2 * math.ulp(gx[j]):
                    step = max(abs(gy[min(j + 1, n - 1)] - gy[j]), abs(gy[j] - gy[max(j - 1, 0)]))
                    width = min([gx[m + 1] - gx[m] for m in (j - 1, j) if 0 <= m < n - 1])
                    if abs(v - gy[j]) > step * min(1.0, 4 * math.ulp(gx[j]) / width) + slack:
                        return "jump at grid point %d: value %r two ulp away, table %r" % (j, v, gy[j]), x
        if p["mono"] and prev is not None and v < prev - slack:
            return "values are increasing but the lookup decreases", x
        prev = v
    return None, None

# --------------------------------------------------------------------------
# property oracle on the implementation's outputs

def between(x, a, b, slack):
    lo, hi = min(a, b), max(a, b)
    return lo - slack * abs(lo) - 1e-300 <= x <= hi + slack * abs(hi) + 1e-300


def oracle(k, p, out, consts):
    a = p["args"]
    min_step, dtrl, small = consts
    def _flat(v):
        if isinstance(v, (tuple, list)):
            for x in v:
                yield from _flat(x)
        else:
            yield v
    flat = list(_flat(out))
    if any(not math.isfinite(v) for v in flat):
        return "non-finite result", None
    if k in ("generic", "geninv", "genmk"):
        return generic_oracle(k, p, out)
    if k == "xs":
        t = p["t"]
        for e, v in zip(a, out):
            if v < 0:
                return "negative cross section", e
            if e <= t.knots[0] * (1 - 1e-12):
                ref = t.values[0] / e if t.prime == 0 else t.values[0]
                if not close(v, ref, rtol=1e-12):
                    return "low-energy extrapolation differs from the documented rule", e
            elif e >= t.knots[-1] * (1 + 1e-12):
                ref = t.values[-1] / e if 0 <= t.prime <= t.n - 1 else t.values[-1]
                if not close(v, ref, rtol=1e-12):
                    return "high-energy extrapolation differs from the documented rule", e
            else:
                i = min(t.n - 2, max(0, bisect.bisect_right(t.knots, e) - 1))
                cand = [t.knot_value(j) for j in range(max(0, i - 1), min(t.n, i + 3))]
                near = [j for j in range(t.n) if abs(e - t.knots[j]) <= 8 * math.ulp(e)]
                if near:
                    # knot reproduction + continuity: within a few ulp of a knot the value is the knot value
                    if not close(v, t.knot_value(near[0]), rtol=1e-7):
                        return "value at (or one ulp from) a knot differs from the table", e
                else:
                    lo, hi = t.knot_value(i), t.knot_value(i + 1)
                    if not between(v, lo, hi, 1e-9):
                        return "interpolated value not between the neighbouring knot values", e
    elif k == "xsat":
        t = p["t"]
        for i, v in zip(a, out):
            if not close(v, t.knot_value(i), rtol=1e-12):
                return "operator[] differs from the (unscaled) table value", i
    elif k == "range":
        t = p["t"]
        prev = None
        for e, v in zip(a, out):
            if v <= 0:
                return "non-positive range", e
            if prev is not None and v < prev * (1 - 1e-12):
                return "range not monotone in energy", e
            prev = v
            if e >= t.knots[-1] * (1 + 1e-12) and v != t.values[-1]:
                return "range above the table is not clamped to the last value", e
            if e <= t.knots[0] * (1 - 1e-12) and not close(v, t.values[0] * math.sqrt(e / t.knots[0]), rtol=1e-12):
                return "range below the table is not r_min sqrt(E/E_min)", e
            near = [j for j in range(t.n) if abs(e - t.knots[j]) <= 8 * math.ulp(e)]
            if near and not close(v, t.values[near[0]], rtol=1e-9):
                return "range at a knot differs from the table", e
    elif k == "invrange":
        t = p["t"]
        prev = None
        for rr, v in zip(a, out):
            if v <= 0:
                return "non-positive energy from the inverse range", rr
            if prev is not None and v < prev * (1 - 1e-12):
                return "inverse range not monotone", rr
            prev = v
            if not close(py_range(t, v), rr, rtol=1e-11):
                return "range(inverse_range(r)) differs from r beyond 1e-11", rr
            near = [j for j in range(t.n) if abs(rr - t.values[j]) <= 8 * math.ulp(rr)]
            if near and not close(v, t.knots[near[0]], rtol=1e-9):
                return "inverse range at a table value differs from the knot energy", rr
    elif k == "eloss":
        e, rng, lll = p["e"], p["range"], p["lll"]
        prev = None
        for s, v in zip(a, out):
            if v < -1e-12 * e:
                return "negative mean energy loss", s
            if v > e:
                return "mean energy loss exceeds the particle energy", s
            # exact: the code returns pre_step_energy itself when step == range in the range branch
            if s == rng and p.get("dedx") is not None and s * p["dedx"] >= e * lll and v != e:
                return "loss over the full range is not (exactly) the full energy", s
    elif k == "togeo":
        for t_, (g, al) in zip(a, out):
            if not (0 <= g <= t_):
                return "geometric path outside [0, true path]", t_
    elif k == "msc":
        # zero slack: these are enforced by min()/clamp() in the code
        for t_, (g, al, backs) in zip(a, out):
            if not (g <= t_):
                return "geometric path %r exceeds the true path %r (by %.3g ulp)" % (g, t_, (g - t_) / math.ulp(t_)), t_
            if not (0 <= g):
                return "negative geometric path", t_
            gs = [g, math.nextafter(g, 0.0), g * 0.5, g * 1e-3]
            for gq, b in zip(gs, backs):
                if not (gq <= b <= t_):
                    return "converted-back true path %r not in [geometric %r, original true %r]" % (b, gq, t_), t_
    elif k == "fromgeo":
        for g, v in zip(a, out):
            if not (g <= v <= p["true"]):
                return "true path not between the geometric path and the original true path", g
    return None, None


F7_SIGNATURE = "mean-loss-jump-at-linear-range-switch"


def loss_monotonicity(p, out, dedx):
    """'does not decrease with step length' on the implementation's outputs.
    Returns a list of (message, signature, replay) for every decrease between
    consecutive steps.  A decrease is the known finding F7 only if the two steps
    straddle the switch step*dEdx = lll*E and the drop is <= 4*lll relative."""
    e, lll, a = p["e"], p["lll"], p["args"]
    res = []
    for (s1, v1), (s2, v2) in zip(zip(a, out), zip(a[1:], out[1:])):
        if v2 >= v1 - 1e-12 * e:
            continue
        lin1 = not (s1 * dedx >= e * lll)     # the function's own test, same double operations
        lin2 = not (s2 * dedx >= e * lll)
        drop = (v1 - v2) / v1
        straddle = lin1 and not lin2
        sig = F7_SIGNATURE if (straddle and drop <= 4 * lll) else None
        msg = ("mean energy loss decreases with the step across the linear/range switch (relative drop %.3g, limit %.3g)" % (drop, lll)
               if straddle else "mean energy loss decreases with the step within one branch (relative drop %.3g)" % drop)
        res.append((msg, sig, {"energy": hx(e), "linear_loss_limit": hx(lll), "range": hx(p["range"]), "dedx": hx(dedx),
                               "step1": hx(s1), "loss1": hx(v1), "step2": hx(s2), "loss2": hx(v2),
                               "step1_linear_branch": lin1, "step2_linear_branch": lin2}))
    return res


def agree(k, p, out, mv):
    a = p["args"]
    if len(out) != len(mv):
        return False
    if k == "eloss":
        e, lll = p["e"], p["lll"]
        for s, x, y in zip(a, out, mv):
            if not close(x, y, rtol=1e-9, atol=1e-11 * e):
                # knife edge of the branch switch: accept if either side's linear loss is within rounding of lll*E
                if min(abs(x - lll * e), abs(y - lll * e)) <= 1e-9 * lll * e:
                    continue
                return False
        return True
    if k == "msc":
        for t_, (g, al, backs), (mg, mal, mbacks) in zip(a, out, mv):
            if not close(g, mg, rtol=1e-9, atol=1e-13 * t_):
                return False
            if not close(al, mal, rtol=1e-6, atol=1e-9 / t_):
                return False
            gs = [g, math.nextafter(g, 0.0), g * 0.5, g * 1e-3]
            for gq, x, y in zip(gs, backs, mbacks):
                if close(x, y, rtol=1e-9, atol=1e-12 * t_):
                    continue
                # knife edge of MscStepFromGeo: x = min(alpha*w*g, 1); at x == 1 (+- rounding) the
                # power law (1 - x)^(1/w) is pure rounding noise (0 or ~1e-16): accepted either way
                try:
                    w = 1 + 1 / (al * p["lam"])
                    if al != 0 and abs(al * w * gq - 1) < 1e-9:
                        continue
                except (ZeroDivisionError, OverflowError):
                    pass
                return False
        return True
    if k == "togeo":
        for t_, (g, al), (mg, mal) in zip(a, out, mv):
            if not close(g, mg, rtol=1e-9, atol=1e-13 * t_):
                return False
            if not close(al, mal, rtol=1e-6, atol=1e-9 / t_):
                return False
        return True
    if k == "fromgeo":
        return all(close(x, y, rtol=1e-9, atol=1e-13 * p["true"]) for x, y in zip(out, mv))
    if k in ("generic", "geninv", "genmk"):
        gy = p["ys"] if k == "generic" else p["xs"]
        atol = 1e-12 * max(abs(v) for v in gy) + 1e-300
        return all(close(x, y, rtol=1e-9, atol=atol) for x, y in zip(out, mv))
    scale = max(abs(v) for v in out) if out else 0.0
    return all(close(x, y, rtol=1e-9, atol=1e-300) for x, y in zip(out, mv))


def batched_eval(ctx, name, pre, kexprs, batch=12, files=4):
    order = {}
    for i, (k, e) in enumerate(kexprs):
        order.setdefault(k, []).append(i)
    batches, index = [], []
    for k, idxs in order.items():
        for s in range(0, len(idxs), batch):
            part = idxs[s:s + batch]
            batches.append("[" + ";\n ".join("(%s)" % kexprs[i][1] for i in part) + "]")
            index.append(part)
    vals = ctx.coq_eval(name, pre, batches, chunk=max(1, (len(batches) + files - 1) // files))
    out = [None] * len(kexprs)
    for part, vs in zip(index, vals):
        for i, v in zip(part, vs):
            out[i] = v
    return out


# --------------------------------------------------------------------------
# the real table builders (ValueGridBuilder.cc) -> XsCalculator on the built grid

def gen_builder_cases(ctx):
    r = ctx.rng
    thorough = ctx.tier != "quick"
    specs = []        # (emin, emax, n, style)
    # Geant4-style binnings: emin = 10^a, d decades, b bins per decade (the standard EM tables are
    # 100 eV .. 100 TeV with 7 bins per decade = 85 points)
    specs.append((1e-4, 1e8, 85, 0))
    for _ in range(14 if not thorough else 120):
        a = r.randrange(-6, 1); d = r.randrange(1, 15); b = r.choice([1, 2, 3, 5, 7, 7, 10, 20])
        if d * b + 1 <= 200:
            specs.append((10.0 ** a, 10.0 ** (a + d), d * b + 1, r.randrange(3)))
    for _ in range(14 if not thorough else 120):
        emin = 10 ** r.uniform(-6, 1)
        specs.append((emin, emin * 10 ** r.uniform(0.2, 12), r.choice([2, 3, 4, 5, 6, 9, 17, 50, 100, 200, r.randrange(2, 201)]),
                      r.randrange(2)))
    cases = []
    for gi, (emin, emax, n, style) in enumerate(specs):
        lmin, lmax = math.log(emin), math.log(emax)
        if style == 0:
            es = [math.exp(lmin + (lmax - lmin) / (n - 1) * i) for i in range(n)]
        elif style == 1:
            es = [emin * (emax / emin) ** (i / (n - 1)) for i in range(n)]
        else:
            bpd = (n - 1) / round(math.log10(emax / emin))
            es = [emin * 10 ** (i / bpd) for i in range(n)]
        es[0], es[-1] = emin, emax
        if any(not (x < y) for x, y in zip(es, es[1:])):
            continue
        ph = r.uniform(0, 6)
        if gi % 2 == 0:
            phys = [2.5 + math.sin(0.37 * math.log(e) + ph) + 0.02 * math.log(e) for e in es]
        else:
            v = 10 ** r.uniform(-3, 3); phys = []
            for _ in es:
                phys.append(v); v *= r.uniform(0.5, 2.0)
        if n <= 12 or gi == 0:
            ks = list(range(0, n - 1))
        else:
            ks = sorted({0, 1, 2, n - 3, n - 2} | {r.randrange(0, n - 1) for _ in range(8)})
        for k in ks:
            mode = 0 if (gi == 0 or r.random() < 0.5) else 1
            idx = {0, n - 1, r.randrange(n), r.randrange(n)} | {i for i in (k - 2, k - 1, k, k + 1) if 0 <= i < n}
            q = []
            for i in sorted(idx):
                q += [ulps(es[i], -1), es[i], ulps(es[i], 1)]
            for i in sorted({0, n - 2, r.randrange(n - 1)} | {i for i in (k - 2, k - 1, k) if 0 <= i < n - 1}):
                q += [math.sqrt(es[i] * es[i + 1]), es[i] + 0.9 * (es[i + 1] - es[i])]
            q += [emin * 0.3, emax * 3.0]
            cases.append(dict(mode=mode, k=k, es=es, phys=phys, q=q))
        # unscaled builders on the same grid: energy-loss-like table and a range table
        cases.append(dict(mode=2, k=-1, es=es, phys=phys, q=[es[0], es[-1], es[n // 2]] +
                          [math.sqrt(es[i] * es[i + 1]) for i in sorted({0, n - 2, r.randrange(n - 1)})]))
        rr = [10 ** r.uniform(-4, 2)]
        for _ in range(n - 1):
            rr.append(rr[-1] * r.uniform(1.01, 2.0))
        cases.append(dict(mode=3, k=-1, es=es, phys=rr, q=sorted([es[0], es[-1], es[n // 2], es[0] * 0.5, es[-1] * 2] +
                          [math.sqrt(es[i] * es[i + 1]) for i in sorted({0, n - 2, r.randrange(n - 1)})])))
    return cases


def builder_line(c):
    return "vgb %d %d %d %s %d %s %d %s" % (c["mode"], c["k"], len(c["es"]), " ".join(map(hx, c["es"])),
                                            len(c["phys"]), " ".join(map(hx, c["phys"])), len(c["q"]), " ".join(map(hx, c["q"])))


def builder_oracle(c, prime, qv, knots):
    """the property's clauses against the INPUT table given to the builder"""
    es, phys, k, mode = c["es"], c["phys"], c["k"], c["mode"]
    n = len(es)
    if any(not math.isfinite(v) for v in qv + knots):
        return "non-finite lookup on a built grid", None
    if mode in (2, 3) and prime != -1:
        return "unscaled builder produced a scaled grid", None
    if mode != 3:
        for i, v in enumerate(knots):
            if not close(v, phys[i], rtol=1e-9):
                return "XsCalculator[%d] = %r does not reproduce the imported value %r" % (i, v, phys[i]), es[i]
    for e, v in zip(c["q"], qv):
        if mode == 3:
            ref_lo = phys[0] * math.sqrt(min(e, es[0]) / es[0])
            if e <= es[0] * (1 - 1e-12):
                ok = close(v, ref_lo, rtol=1e-12)
            elif e >= es[-1]:
                ok = close(v, phys[-1], rtol=1e-12)
            else:
                i = min(n - 2, max(0, bisect.bisect_right(es, e) - 1))
                ok = between(v, phys[i], phys[i + 1], 1e-9)
            if not ok:
                return "RangeCalculator on the built grid is not consistent with the imported range table", e
            continue
        if e < es[0] or e > es[-1]:
            i = 0 if e < es[0] else n - 1
            ref = phys[i] * es[i] / e if (0 <= k <= i) else phys[i]
            if not close(v, ref, rtol=1e-9):
                return "extrapolation on the built grid differs from the documented rule", e
            continue
        near = [j for j in range(n) if abs(e - es[j]) <= 8 * math.ulp(e)]
        if near:
            if not close(v, phys[near[0]], rtol=1e-7):
                return ("lookup at (or one ulp from) knot %d gives %r, the imported table says %r" % (near[0], v, phys[near[0]])), e
        else:
            i = min(n - 2, max(0, bisect.bisect_right(es, e) - 1))
            if not between(v, phys[i], phys[i + 1], 1e-9):
                return ("lookup in bin %d gives %r, outside the neighbouring imported values %r, %r" % (i, v, phys[i], phys[i + 1])), e
    if mode in (0, 1) and prime != k:
        # prime_index law: E[prime_index] == eprime (values happened to agree)
        return "built prime_index %d but eprime is knot %d of the imported table" % (prime, k), es[k]
    return None, None



def gen_fgeant_cases(ctx):
    """ValueGridXsBuilder::from_geant on the four imported arrays: valid tables, a mismatch at the
    coincident point (precondition violated, not enforced in this build), inconsistent spacings"""
    r = ctx.rng
    thorough = ctx.tier != "quick"
    cases = []
    specs = [(1e-4, 1e8, 85)]
    for _ in range(5 if not thorough else 80):
        a = r.randrange(-6, 1); d = r.randrange(1, 12); b = r.choice([1, 2, 3, 5, 7, 10])
        specs.append((10.0 ** a, 10.0 ** (a + d), d * b + 1))
    for _ in range(6 if not thorough else 60):
        emin = 10 ** r.uniform(-6, 1)
        specs.append((emin, emin * 10 ** r.uniform(0.5, 10), r.choice([3, 4, 5, 9, 33, r.randrange(3, 150 if thorough else 40)])))
    for si, (emin, emax, n) in enumerate(specs):
        if n < 3:
            continue
        lmin, lmax = math.log(emin), math.log(emax)
        es = [math.exp(lmin + (lmax - lmin) / (n - 1) * i) for i in range(n)]
        es[0], es[-1] = emin, emax
        phys = [10 ** r.uniform(-3, 3) for _ in es]
        if thorough:
            ks = sorted({1, n - 2, r.randrange(1, n - 1)})
        elif si == 0 or n > 45:
            ks = [r.choice([1, n - 2, r.randrange(1, n - 1)])]
        else:
            ks = sorted({r.choice([1, n - 2]), r.randrange(1, n - 1)})
        for k in ks:
            le, pe = es[:k + 1], es[k:]
            l = phys[:k + 1]
            lp = [phys[i] * es[i] for i in range(k, n)]
            cases.append(dict(kind="valid", le=le, l=l, pe=pe, lp=lp))
            if si % 3 == 0:
                l2 = list(l); l2[-1] = l[-1] * 1.5 + 1.0      # lambda.back != lambda_prim.front / E
                cases.append(dict(kind="mismatch", le=le, l=l2, pe=pe, lp=lp))
            if si % 3 == 1 and len(pe) >= 2:
                dlt = (es[1] / es[0]) ** r.choice([0.5, 1.5, 2.0, 1.001])   # clearly different spacing: throws
                pe2 = [pe[0] * dlt ** j for j in range(len(pe))]
                cases.append(dict(kind="inconsistent", le=le, l=l, pe=pe2, lp=lp))
            if si % 3 == 2 and len(pe) >= 2:
                dlt = (es[1] / es[0]) * (1 + 1e-14)                         # within soft_equal: accepted
                pe2 = [pe[0] * dlt ** j for j in range(len(pe))]
                cases.append(dict(kind="near", le=le, l=l, pe=pe2, lp=lp))
    return cases


def fgeant_line(c):
    return "fgeant " + " ".join("%d %s" % (len(v), " ".join(map(hx, v))) for v in (c["le"], c["l"], c["pe"], c["lp"]))


def run_fgeant(ctx, exe):
    cases = gen_fgeant_cases(ctx)
    rc, out = ctx.run_harness(exe, input="".join(fgeant_line(c) + "\n" for c in cases), timeout=600)
    lines = out.splitlines()
    if rc != 0 or len(lines) != len(cases):
        raise vlib.BuildError("builder harness (fgeant) failed rc=%d (%d lines for %d cases)" % (rc, len(lines), len(cases)), out[-1500:])
    exprs = [("fg", "run_from_geant %s %s %s %s" % (fl(c["le"]), fl(c["l"]), fl(c["pe"]), fl(c["lp"]))) for c in cases]
    pexprs, pmap = [], []
    parsed = []
    for ci, ln in enumerate(lines):
        if ln.startswith("threw"):
            parsed.append(None)
            continue
        head, vals = ln.split("|")
        h = head.split()
        parsed.append((int(h[0]), int(h[1]), [pf(t) for t in h[2:5]], [pf(t) for t in vals.split()]))
        pexprs.append(("prime", "run_build_prime %s %s %s %d" % (hexf(pf(h[2])), hexf(pf(h[3])), hexf(pf(h[4])), int(h[1]))))
        pmap.append(ci)
    mvals = batched_eval(ctx, "fgeant", PRE, exprs + pexprs, batch=20, files=3)
    mfg = mvals[:len(exprs)]
    mprime = dict(zip(pmap, mvals[len(exprs):]))
    nv = 0
    for ci, (c, pr, mv) in enumerate(zip(cases, parsed, mfg)):
        ctx.count("kind:from_geant-" + c["kind"])
        ctx.case(("fgeant", c["kind"], len(c["le"]), len(c["pe"]), hx(c["le"][0]), hx(c["pe"][-1]), hx(c["l"][-1])), nontrivial=True)
        if nv >= 3:
            continue
        rep = {"kind": c["kind"], "command": fgeant_line(c)[:6000], "implementation": lines[ci][:3000], "model": repr(mv)[:3000]}
        m_args, m_expects = mv
        want = c["l"][:-1] + c["lp"]
        msg = None
        # property oracle against the INPUT arrays
        if c["kind"] == "inconsistent":
            if pr is not None:
                msg = "from_geant accepted lower/upper energy grids with inconsistent log spacing"
        elif pr is None:
            msg = "from_geant rejected a valid imported table"
        else:
            prime, size, logs, stored = pr
            if size != len(want) or stored != want:
                msg = "from_geant did not concatenate lambda[:-1] ++ lambda_prim (stored %d values, expected %d)" % (len(stored), len(want))
            elif prime != len(c["l"]) - 1:
                msg = "from_geant: prime index %d is not the coincident point %d" % (prime, len(c["l"]) - 1)
            elif not (close(logs[0], math.log(c["le"][0]), rtol=1e-12, atol=1e-15) and close(logs[2], math.log(c["pe"][-1]), rtol=1e-12, atol=1e-15)):
                msg = "from_geant: grid bounds are not log(lambda_energy.front()), log(lambda_prim_energy.back())"
        if msg:
            nv += 1
            ctx.violation("oracle", msg, rep)
            continue
        # correspondence with the model
        bad = None
        if (pr is None) != (m_args is None):
            bad = "throw / no throw"
        elif pr is not None:
            memin, meprime, memax, mxs = m_args
            if mxs != pr[3]:
                bad = "concatenated values"
            elif (memin, meprime, memax) != (c["le"][0], c["pe"][0], c["pe"][-1]):
                bad = "constructor arguments"
            elif mprime.get(ci) != pr[0]:
                bad = "prime index (model %r)" % (mprime.get(ci),)
        if bad is None and c["kind"] in ("valid", "near") and m_expects is not True:
            bad = "the model's from_geant_expects rejects a valid table"
        if bad is None and c["kind"] == "mismatch" and m_expects is not False:
            bad = "the model's from_geant_expects accepts lambda.back() != lambda_prim.front()/E"
        if bad:
            nv += 1
            ctx.violation("correspondence", "from_geant model and ValueGridXsBuilder::from_geant disagree: " + bad, rep, no_input=True)
    ctx.log("from_geant: %d cases" % len(cases))


def run_builders(ctx):
    ctx.build_libs(["celeritas"])
    exe = ctx.compile_harness([os.path.join(HERE, "harness", "builder.cc")], "builder",
                              libs=["celeritas", "orange", "geocel", "corecel"])
    cases = gen_builder_cases(ctx)
    rc, out = ctx.run_harness(exe, input="".join(builder_line(c) + "\n" for c in cases), timeout=900)
    lines = out.splitlines()
    if rc != 0 or len(lines) != len(cases):
        raise vlib.BuildError("builder harness failed rc=%d (%d lines for %d cases)" % (rc, len(lines), len(cases)), out[-1500:])
    parsed, exprs, emap = [], [], []
    for ci, (c, ln) in enumerate(zip(cases, lines)):
        if ln.startswith("exception"):
            parsed.append(None)
            continue
        head, qs, ks = (ln.split("|") + ["", ""])[:3]
        h = head.split()
        parsed.append((int(h[0]), [pf(t) for t in qs.split()], [pf(t) for t in ks.split()]))
        if c["mode"] in (0, 1):
            exprs.append(("prime", "run_build_prime %s %s %s %d" % (hexf(pf(h[1])), hexf(pf(h[2])), hexf(pf(h[3])), int(h[4]))))
            emap.append(ci)
    mvals = batched_eval(ctx, "builder", PRE, exprs, batch=100, files=2)
    model_prime = dict(zip(emap, mvals))
    nv = {}
    for ci, (c, pr) in enumerate(zip(cases, parsed)):
        kind = "builder-mode%d" % c["mode"]
        ctx.count("kind:" + kind)
        for q in c["q"]:
            ctx.case((kind, c["k"], hx(c["es"][0]), hx(c["es"][-1]), len(c["es"]), hx(q)), nontrivial=True)
        if nv.get(kind, 0) >= 2:
            continue
        rep = {"builder": ["ValueGridXsBuilder(emin,eprime,emax,xs)", "ValueGridXsBuilder::from_geant/from_scaled",
                           "ValueGridLogBuilder::from_geant", "ValueGridLogBuilder::from_range"][c["mode"]],
               "emin": hx(c["es"][0]), "emax": hx(c["es"][-1]), "points": len(c["es"]), "prime_knot": c["k"],
               "command": builder_line(c)[:6000], "implementation": lines[ci][:3000]}
        if pr is None:
            nv[kind] = nv.get(kind, 0) + 1
            ctx.violation("oracle", "the builder rejected a valid imported-style table: " + lines[ci][:160], rep)
            continue
        msg, at = builder_oracle(c, pr[0], pr[1], pr[2])
        if msg:
            nv[kind] = nv.get(kind, 0) + 1
            rep["at_energy"] = hx(at) if isinstance(at, float) else at
            rep["model_prime_index"] = model_prime.get(ci)
            ctx.violation("oracle", "%s (grid %g..%g MeV, %d points, prime knot %d)" % (msg, c["es"][0], c["es"][-1], len(c["es"]), c["k"]), rep)
        elif ci in model_prime and model_prime[ci] != pr[0]:
            nv[kind] = nv.get(kind, 0) + 1
            rep["model_prime_index"] = model_prime[ci]
            ctx.violation("correspondence", "builder model and ValueGridXsBuilder::build disagree on prime_index", rep, no_input=True)
    ctx.log("builders: %d built grids (%d with a scaled part)" % (len(cases), len(emap)))
    run_fgeant(ctx, exe)


def run(ctx):
    ctx.trusted += [
        "hand-written model coq/C14/Calc.v on top of coq/C18/Grids.v, tied by differential runs (props/C14/run.py, harness/calc.cc)",
        "float instance of Num (Base/NumF.v, Base/FloatFun.v): own exp/log/expm1/log1p; compared with libm under rtol 1e-9",
        "gap R vs binary64 rounding (DESIGN.md 3.1); fma modelled as a*b+c",
        "hand-built PhysicsParamsData/UrbanMscData host collections in the harness (one particle, one process, one material)",
        "the table builders of ValueGridBuilder.cc are run for real (libceleritas) and checked against their INPUT tables; only the prime-index computation of ValueGridXsBuilder::build is modelled (coq/C14/Builder.v)",
    ]
    ctx.assumptions += [
        "tables satisfy XsGridData's validity conditions; range tables strictly increasing; values positive",
        "dedx_range passed to calc_mean_energy_loss is a valid range (0 < step <= range <= r_max)",
    ]
    proofs_ok = ctx.coq_prove("Properties_C14.v")
    ok, log = ctx.coq_build(["C14/Run.vo"])
    if not ok:
        ctx.violation("model-broken", "the executable model no longer compiles", {"log": log[-2000:]}, no_input=True)
        return
    ctx.build_libs(["corecel"])
    exe = ctx.compile_harness([os.path.join(HERE, "harness", "calc.cc")], "calc", libs=["corecel"],
                              extra=["-fsanitize=address,undefined", "-fno-sanitize-recover=undefined", "-fno-omit-frame-pointer"])
    env = {"ASAN_OPTIONS": "detect_leaks=0:abort_on_error=0:exitcode=77", "UBSAN_OPTIONS": "print_stacktrace=0"}
    rc, out = ctx.run_harness(exe, input="consts\n", env=env)
    consts = tuple(pf(t) for t in out.split())
    cases = gen_cases(ctx, consts)
    lines = [case_line(k, p) for k, p in cases]
    rc, out = ctx.run_harness(exe, input="\n".join(lines) + "\n", env=env, timeout=900)
    olines = [l for l in out.splitlines() if l.startswith(" ") or l.startswith("0x") or l.startswith("-0x")]
    if rc != 0 or len(olines) != len(cases):
        # a sanitizer report (out-of-bounds table read, e.g. finding F3) or a crash: find the command
        bad = None
        for k_p, line in zip(cases, lines):
            rc1, out1 = ctx.run_harness(exe, input=line + "\n", env=env)
            if rc1 != 0:
                bad = (k_p, line, out1)
                break
        if bad is None:
            raise vlib.BuildError("calc harness failed rc=%d without a reproducible command" % rc, out[-1500:])
        (k, p), line, out1 = bad
        # narrow the replay to a single argument
        for a in p["args"]:
            q = dict(p); q["args"] = [a]
            rc1, o1 = ctx.run_harness(exe, input=case_line(k, q) + "\n", env=env)
            if rc1 != 0:
                line, out1 = case_line(k, q), o1
                break
        report = [l for l in out1.splitlines() if "ERROR" in l or "runtime error" in l or "SUMMARY" in l][:4]
        ctx.violation("oracle", "sanitizer/crash in %s: %s" % (k, "; ".join(report)[:300]),
                      {"command": line[:3000], "harness_output_tail": out1[-1500:]})
        return
    mvals = batched_eval(ctx, "calc", PRE, [(k, case_expr(k, p, consts)) for k, p in cases])
    nviol = {}
    last_inv = None
    for (k, p), ol, mv in zip(cases, olines, mvals):
        if nviol.get(k, 0) >= 2:
            continue
        tok = ol.split("|")[0].split()
        vals = [pf(t) for t in tok]
        if k == "togeo":
            vals = [(vals[i], vals[i + 1]) for i in range(0, len(vals), 2)]
        elif k == "msc":
            vals = [(vals[i], vals[i + 1], vals[i + 2:i + 6]) for i in range(0, len(vals), 6)]
        elif k == "eloss":
            p["dedx"] = pf(ol.split("|")[1].split()[0])
        elif k == "generic":
            p["at"] = [pf(t) for t in ol.split("|")[1].split()]
        elif k == "geninv":
            last_inv = (p["xs"], p["args"], vals)
        elif k == "genmk" and last_inv is not None and last_inv[:2] == (p["xs"], p["args"]) and last_inv[2] != vals:
            nviol[k] = nviol.get(k, 0) + 1
            ctx.violation("oracle", "GenericCalculator::from_inverse and make_inverse disagree",
                          {"command": case_line(k, p)[:3000], "from_inverse": list(map(hx, last_inv[2])), "make_inverse": list(map(hx, vals))})
        ctx.count("kind:" + k)
        for a in p["args"]:
            ctx.case((k, case_line(k, p)[:300], a), nontrivial=True)
        if ctx.evaluations % 997 < len(p["args"]):
            ctx.sample({"kind": k, "command": case_line(k, p)[:160], "impl": ol[:120], "model": repr(mv)[:120]})
        msg, at = oracle(k, p, vals, consts)
        if k == "eloss" and p.get("mono") and not msg:
            dedx = pf(ol.split("|")[1].split()[0])
            ctx.count("monotonicity-oracle-cases")
            for m_msg, m_sig, m_rep in loss_monotonicity(p, vals, dedx):
                m_rep["command"] = case_line(k, p)[:3000]
                ctx.count("loss-decrease:" + ("known-F7" if m_sig else "other"))
                if m_sig or nviol.get("eloss-mono", 0) < 2:
                    if not m_sig:
                        nviol["eloss-mono"] = nviol.get("eloss-mono", 0) + 1
                    ctx.violation("oracle", m_msg, m_rep, signature=m_sig)
        if msg:
            nviol[k] = nviol.get(k, 0) + 1
            ctx.violation("oracle", "%s (%s)" % (msg, k), {"command": case_line(k, p)[:3000], "at": hx(at) if isinstance(at, float) else at,
                                                           "implementation": ol[:2000], "model": repr(mv)[:2000]})
        elif not agree(k, p, vals, mv):
            nviol[k] = nviol.get(k, 0) + 1
            ctx.violation("correspondence", "model and implementation differ for %s" % k,
                          {"command": case_line(k, p)[:3000], "implementation": ol[:2000], "model": repr(mv)[:2000],
                           "theorem": "Properties_C14.v is about a model that no longer matches the code"}, no_input=True)
    # replay of the refutation witness (Properties_C14.v: C14_mean_loss_monotone_refuted) on the real function
    for (k, p), ol in zip(cases, olines):
        if k == "eloss" and p["args"] == [0.00999, 0.01, 2.0]:
            v = [pf(t) for t in ol.split("|")[0].split()]
            ctx.notes.append("F7 witness on calc_mean_energy_loss: loss(0.00999)=%r loss(0.01)=%r -> %s" % (
                v[0], v[1], "reproduces (loss decreases across the linear/range switch)" if v[1] < v[0] else "does NOT reproduce"))
            if not v[1] < v[0]:
                ctx.violation("correspondence", "the refutation witness of C14_mean_loss_monotone_refuted does not reproduce on the implementation",
                              {"impl": v}, no_input=True)
            elif not any(h["signature"] == F7_SIGNATURE for h in ctx.known_hits):
                ctx.violation("oracle", "the witness of C14_mean_loss_monotone_refuted reproduces but was not classified as the known finding",
                              {"impl": v}, signature=None)
    run_builders(ctx)
    if not proofs_ok and not ctx.violations:
        ctx.violation("proof-broken", "Properties_C14.v no longer checks", ctx.broken_proof, no_input=True)
    ctx.coverage["rule"] = ("cases = (calculator, generated table, argument); tables 2..200 knots, prime_index none/0/1/n-2/n-1/every position "
                            "for small tables; energies at knots +-0,1,2 ulp, ends, far outside; steps in (0, range] incl. range - 1 ulp and "
                            "around the linear/range switch; MSC lambda/range/true path over 12 decades; distinct by full input")
    ctx.coverage["traces_validated_against_impl"] = ctx.evaluations
