#!/bin/bash
# One-time offline setup: configure+build celeritas libraries from /repo in
# /verif/_build/rel and compile the whole Coq development.
set -e
cd "$(dirname "$0")"
mkdir -p _build _work replays evidence
python3 - <<'PY'
import sys
sys.path.insert(0, "tools")
import vlib
c = vlib.Context("SETUP")
c.ensure_configured()
c.build_libs(["corecel", "geocel", "orange", "celeritas", "testcel_harness", "testcel_core",
              "testcel_geocel", "testcel_orange", "testcel_celeritas"])
PY
# regenerate the translator-produced model fragments (coq/Generated/*.v) so that the full make covers them too;
# each check regenerates them again from /repo's working tree on every run
for t in xorwow state_fields shared_mutable json_keys; do
  python3 translators/$t.py > _work/translator_$t.log 2>&1 || echo "translator $t reported a problem (its check will report)"
done
python3 translators/steppers.py /repo coq/Generated/C08_steppers.v > _work/translator_steppers.log 2>&1 || echo "translator steppers reported a problem (its check will report)"
python3 - <<'PY'
import sys
sys.path.insert(0, "tools")
import vlib
vlib.Context("SETUP").coq_makefile()
PY
(cd coq && timeout 3000 make -k -j16 > ../_work/coq_setup.log 2>&1) || { tail -50 _work/coq_setup.log; echo "coq build had failures (individual checks will report)"; }
echo setup done
